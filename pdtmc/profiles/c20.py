"""C20 - all export targets describe the same table.

On every state of the explored history space (the C02 alphabet plus summarize / join
endings; inputs incl. empty results, null-only columns, single-cell tables) every export
target is taken and compared: Polars(), Polars(lazy=True) collected, Pandas(),
DictOfLists, ListOfDicts, Dict (TypeError unless exactly one row), Scalar (TypeError unless
1x1), and the re-import Table(exported frame).  ``ColExpr.export`` is compared with the
corresponding single-column pipeline for a menu of expressions."""

from __future__ import annotations

import math
import warnings

import polars as pl

import pydiverse.transform as pdt

from .. import compare as C
from .. import explore as X
from .. import impl as I
from .. import terms as T
from .. import world as W
from . import base, c02
from .common import ADV_R, Cn, col, lit, world

PROPERTY = "C20"
DEPTH = {"quick": 2, "thorough": 3}

T_ROWS = [
    [[1, 1, 5, "a"], [2, 1, None, "b"], [3, None, 2, "a"], [4, 2, 2, None]],
    [],
    [[1, None, None, None]],
]


def worlds(tier):
    return [world(r, ADV_R) for r in T_ROWS]


ENDINGS = [
    ["summarize", [["n", ["count_star"]]]],  # 1x1
    ["summarize", [["n", ["count_star"]], ["sx", ["sum", col("T", "x")]]]],  # one row
    ["join", {"src": "R"}, "left", [["eq", col("T", "k"), col("R", "k")]]],
    ["select", [Cn("x")]],  # single column
    ["filter", [["eq", col("T", "k"), lit(1)]]],  # at most one row
    ["mutate", [["nn", lit(None)]]],  # null-only column
    ["select", [Cn("s"), Cn("x"), Cn("g"), Cn("k")]],  # a pure permutation of all columns
]


def alphabet(st, hist):
    return c02.alphabet(st, hist) + ENDINGS


def pandas_rows(pdf):
    import pandas as pd

    out = []
    for rec in pdf.itertuples(index=False):
        row = []
        for v in rec:
            if v is pd.NA or v is None or (isinstance(v, float) and math.isnan(v)):
                row.append(None)
            elif hasattr(v, "item") and not isinstance(v, (str, bytes)):
                try:
                    row.append(v.item())
                except Exception:  # noqa: BLE001
                    row.append(v)
            elif isinstance(v, pd.Timestamp):
                row.append(v.to_pydatetime())
            else:
                row.append(v)
        out.append(tuple(row))
    return out


def check_targets(step):
    vs = []
    for b, o in step.obs.items():
        if o.status != "ok" or o.rows is None:
            continue
        tbl, df = o.table, o.df
        names, rows = o.names, o.rows
        ex = step.explorer
        ordered = ex.model.seq_comparable(step.mres, b)

        def bad(inv, sym, detail=None):
            vs.append(X.violation(step, inv, b, sym, detail or {}))

        with warnings.catch_warnings():
            warnings.simplefilter("ignore")
            # DictOfLists / ListOfDicts
            try:
                dol = tbl >> pdt.export(pdt.DictOfLists)
                if not _rows_equal_loose(names, rows, dol, ordered):
                    bad("target:DictOfLists", "differs", {"polars": C.rows_json(rows), "got": str(dol)[:300]})
                lod = tbl >> pdt.export(pdt.ListOfDicts)
                if len(lod) != len(rows) or any(list(d.keys()) != names for d in lod) or \
                        not C.rows_eq(rows, [tuple(C.norm_cell(d[n]) for n in names) for d in lod], ordered=ordered):
                    bad("target:ListOfDicts", "differs", {"polars": C.rows_json(rows), "got": str(lod)[:300]})
                ex.stats["target_comparisons"] += 2
            except Exception as e:  # noqa: BLE001
                bad("target:dict-like", f"exception:{X.exc_label(e)}", {"message": str(e)[:200]})
            # Dict: exactly one row, else TypeError
            try:
                d = tbl >> pdt.export(pdt.Dict)
                if len(rows) != 1:
                    bad("target:Dict", "accepted-wrong-shape", {"rows": len(rows)})
                elif list(d.keys()) != names or not C.row_eq(rows[0], tuple(C.norm_cell(d[n]) for n in names)):
                    bad("target:Dict", "differs", {"polars": C.rows_json(rows), "got": str(d)[:300]})
            except TypeError:
                if len(rows) == 1:
                    bad("target:Dict", "rejected-fitting-shape")
            except Exception as e:  # noqa: BLE001
                bad("target:Dict", f"exception:{X.exc_label(e)}", {"message": str(e)[:200]})
            # Scalar: 1x1, else TypeError
            try:
                sc = tbl >> pdt.export(pdt.Scalar)
                if len(rows) != 1 or len(names) != 1:
                    bad("target:Scalar", "accepted-wrong-shape", {"shape": [len(rows), len(names)]})
                elif not C.cell_eq(rows[0][0], C.norm_cell(sc)):
                    bad("target:Scalar", "differs", {"polars": C.rows_json(rows), "got": repr(sc)})
            except TypeError:
                if len(rows) == 1 and len(names) == 1:
                    bad("target:Scalar", "rejected-fitting-shape")
            except Exception as e:  # noqa: BLE001
                bad("target:Scalar", f"exception:{X.exc_label(e)}", {"message": str(e)[:200]})
            ex.stats["target_comparisons"] += 2
            if b != "polars":
                # the lazy target of a SQL table is a LazyFrame with the same content
                try:
                    lz = tbl >> pdt.export(pdt.Polars(lazy=True))
                    if not isinstance(lz, pl.LazyFrame):
                        bad("target:Polars(lazy)", "not-lazy", {"type": type(lz).__name__})
                    elif C.diff_frames(names, rows, list(lz.collect().columns), C.frame_rows(lz.collect()), ordered=ordered):
                        bad("target:Polars(lazy)", "differs", {})
                    ex.stats["target_comparisons"] += 1
                except Exception as e:  # noqa: BLE001
                    bad("target:Polars(lazy)", f"exception:{X.exc_label(e)}", {"message": str(e)[:200]})
                continue
            # lazy, pandas, re-import (polars backend)
            try:
                lz = tbl >> pdt.export(pdt.Polars(lazy=True))
                if not isinstance(lz, pl.LazyFrame):
                    bad("target:Polars(lazy)", "not-lazy", {"type": type(lz).__name__})
                else:
                    got = lz.collect()
                    if dict(got.schema) != dict(df.schema) or C.diff_frames(names, rows, list(got.columns), C.frame_rows(got), ordered=ordered):
                        bad("target:Polars(lazy)", "differs", {"eager": str(df.schema), "lazy": str(got.schema)})
                pdf = tbl >> pdt.export(pdt.Pandas())
                prow = pandas_rows(pdf)
                if list(pdf.columns) != names or C.diff_frames(names, rows, list(pdf.columns), prow, ordered=ordered):
                    bad("target:Pandas", "differs", {"polars": C.rows_json(rows)[:5], "pandas": str(prow)[:300], "columns": list(map(str, pdf.columns))})
                again = pdt.Table(df) >> pdt.export(pdt.Polars())
                if dict(again.schema) != dict(df.schema) or not again.equals(df):
                    bad("reimport", "differs", {"first": str(df.schema), "again": str(again.schema)})
                ex.stats["target_comparisons"] += 3
            except Exception as e:  # noqa: BLE001
                bad("target:frame-like", f"exception:{X.exc_label(e)}", {"message": str(e)[:200]})
    return vs


def _rows_equal_loose(names, rows, dol, ordered):
    if list(dol.keys()) != names or any(len(v) != len(rows) for v in dol.values()):
        return False
    got = [tuple(C.norm_cell(dol[n][i]) for n in names) for i in range(len(rows))]
    return C.rows_eq(rows, got, ordered=ordered)


# ---------------------------------------------------------------------------------------
# ColExpr.export

def colexpr_part(stats, vs):
    w = worlds("quick")[0]
    x, g, k, s = (col("T", n) for n in "xgks")
    menu = [x, s, ["add", x, lit(1)], ["mul", x, g], ["is_null", x], ["case", [[["gt", x, lit(2)], lit("hi")]], s], ["cast", x, "float"],
            ["sum", x], ["row_number", {"arrange": [k]}], ["max", x, {"partition_by": [g]}], ["fill_null", s, lit("-")],
            ["str_len", s], ["eq", g, lit(1)], ["neg", k], ["shift", x, 1, None, {"arrange": [k]}], ["coalesce", x, g, lit(0)]]
    for b in W.BACKENDS:
        built = W.build(w, b)
        try:
            ctx = I.Ctx(built)
            ctx.tables = [built.tables["T"]]
            for term in menu:
                stats["states"] += 1
                stats["transitions"] += 1
                label = T.py_expr(term)
                with warnings.catch_warnings():
                    warnings.simplefilter("ignore")
                    try:
                        e = I.build_expr(term, ctx)
                        ser = e.export(pdt.Polars())
                        ref = (built.tables["T"] >> pdt.mutate(c__=I.build_expr(term, ctx)) >> pdt.select("c__") >> pdt.export(pdt.Polars())).get_column("c__")
                        if not C.rows_eq([(C.norm_cell(v),) for v in ser.to_list()], [(C.norm_cell(v),) for v in ref.to_list()], ordered=(b == "polars")):
                            vs.append(mkv(b, "colexpr-export:Polars", label, "differs", {"series": str(ser.to_list()), "pipeline": str(ref.to_list())}))
                        if b == "polars":
                            ps = e.export(pdt.Pandas())
                            import pandas as pd

                            got = [None if (v is pd.NA or v is None or (isinstance(v, float) and math.isnan(v))) else (v.item() if hasattr(v, "item") else v) for v in ps.tolist()]
                            if not C.rows_eq([(C.norm_cell(v),) for v in got], [(C.norm_cell(v),) for v in ref.to_list()], ordered=True):
                                vs.append(mkv(b, "colexpr-export:Pandas", label, "differs", {"series": str(got), "pipeline": str(ref.to_list())}))
                        stats["traces_validated"] += 1
                    except Exception as ex_:  # noqa: BLE001
                        vs.append(mkv(b, "colexpr-export", label, f"exception:{X.exc_label(ex_)}", {"message": str(ex_)[:300]}))
            # expressions that mix references of the source table and of a derived table: they
            # have to be evaluated on the derived table (filter / order / slice applied)
            t0 = built.tables["T"]
            with warnings.catch_warnings():
                warnings.simplefilter("ignore")
                t2 = t0 >> pdt.filter(t0.k > 1) >> pdt.arrange(t0.k.descending()) >> pdt.slice_head(2) if b == "polars" else \
                    t0 >> pdt.filter(t0.k > 1) >> pdt.arrange(t0.k.descending())
                t3 = t2 >> pdt.mutate(z=t0.x * 2)
                mixed = [("T.x + t2.g", lambda: t0.x + t2.g, t2), ("t2.g + T.x", lambda: t2.g + t0.x, t2), ("T.x (through t2.k)", lambda: t0.x + t2.k * 0, t2),
                         ("T.x.sum() + t2.k", lambda: t0.x.sum() + t2.k, t2), ("T.k + t3.z", lambda: t0.k + t3.z, t3), ("t3.z", lambda: t3.z, t3),
                         ("when(T.x > 2).then(t2.g)", lambda: pdt.when(t0.x > 2).then(t2.g).otherwise(t0.k), t2)]
                for label, f, tbl in mixed:
                    stats["states"] += 1
                    stats["transitions"] += 1
                    try:
                        ser = f().export(pdt.Polars())
                        ref = (tbl >> pdt.mutate(c__=f()) >> pdt.select("c__") >> pdt.export(pdt.Polars())).get_column("c__")
                        if not C.rows_eq([(C.norm_cell(v),) for v in ser.to_list()], [(C.norm_cell(v),) for v in ref.to_list()], ordered=(b == "polars")):
                            vs.append(mkv(b, "colexpr-export:derived-table", label, "differs", {"series": str(ser.to_list()), "pipeline": str(ref.to_list())}))
                        stats["traces_validated"] += 1
                    except Exception as ex_:  # noqa: BLE001
                        vs.append(mkv(b, "colexpr-export:derived-table", label, f"exception:{X.exc_label(ex_)}", {"message": str(ex_)[:300]}))
        finally:
            built.close()


# ---------------------------------------------------------------------------------------
# special float values (polars only: SQLite cannot store NaN): NaN, +-inf, -0.0 and null stay
# distinct in every target

def _strict_cell(v):
    import pandas as pd

    if v is None or v is pd.NA:
        return "null"
    if hasattr(v, "item") and not isinstance(v, (str, bytes)):
        v = v.item()
    if isinstance(v, float):
        if math.isnan(v):
            return "NaN"
        return repr(v)  # keeps -0.0 and inf apart from 0.0 / null
    return repr(v)


def special_part(stats, vs):
    df = pl.DataFrame({"k": [1, 2, 3, 4, 5, 6], "f": [float("nan"), None, float("inf"), -0.0, 1.5, float("-inf")],
                       "h": [None, None, float("nan"), 2.0, float("nan"), 0.0]})
    t = pdt.Table(df, name="F")
    progs = [("F", lambda: t), ("mutate(q=f*2, r=f+h)", lambda: t >> pdt.mutate(q=t.f * 2, r=t.f + t.h)),
             ("mutate(q=f/h)", lambda: t >> pdt.mutate(q=t.f / t.h)),
             ("filter(k==1)", lambda: t >> pdt.filter(t.k == 1)), ("filter(k==1)>>select(f)", lambda: t >> pdt.filter(t.k == 1) >> pdt.select(t.f)),
             ("filter(k==2)>>select(f)", lambda: t >> pdt.filter(t.k == 2) >> pdt.select(t.f)), ("filter(k==4)>>select(f)", lambda: t >> pdt.filter(t.k == 4) >> pdt.select(t.f)),
             ("summarize(m=h.max(), n=h.min())", lambda: t >> pdt.summarize(m=t.h.max(), n=t.h.min())),
             ("mutate(c=fill_null(h, f))", lambda: t >> pdt.mutate(c=t.h.fill_null(t.f))), ("arrange(f)", lambda: t >> pdt.arrange(t.f.nulls_last(), t.k)),
             ("filter(f.is_null())", lambda: t >> pdt.filter(t.f.is_null()))]
    for label, f in progs:
        stats["states"] += 1
        stats["transitions"] += 1
        with warnings.catch_warnings():
            warnings.simplefilter("ignore")
            try:
                tbl = f()
                ref = tbl >> pdt.export(pdt.Polars())
                names = list(ref.columns)
                want = [tuple(_strict_cell(v) for v in r) for r in ref.rows()]
                targets = {
                    "Polars(lazy)": lambda: [tuple(_strict_cell(v) for v in r) for r in (tbl >> pdt.export(pdt.Polars(lazy=True))).collect().rows()],
                    "Pandas": lambda: [tuple(_strict_cell(v) for v in r) for r in (tbl >> pdt.export(pdt.Pandas())).itertuples(index=False)],
                    "DictOfLists": lambda: (lambda d: [tuple(_strict_cell(d[n][i]) for n in names) for i in range(len(want))])(tbl >> pdt.export(pdt.DictOfLists)),
                    "ListOfDicts": lambda: [tuple(_strict_cell(d[n]) for n in names) for d in tbl >> pdt.export(pdt.ListOfDicts)],
                    "reimport": lambda: [tuple(_strict_cell(v) for v in r) for r in (pdt.Table(ref) >> pdt.export(pdt.Polars())).rows()],
                }
                if len(want) == 1:
                    targets["Dict"] = lambda: (lambda d: [tuple(_strict_cell(d[n]) for n in names)])(tbl >> pdt.export(pdt.Dict))
                    if len(names) == 1:
                        targets["Scalar"] = lambda: [(_strict_cell(tbl >> pdt.export(pdt.Scalar)),)]
                        targets["ColExpr.export(Pandas)"] = lambda: [(_strict_cell(v),) for v in tbl[names[0]].export(pdt.Pandas()).tolist()]
                for tn, g in targets.items():
                    stats["target_comparisons"] += 1
                    got = g()
                    if got != want:
                        vs.append(mkv("polars", f"special-values:{tn}", label, "differs", {"polars": str(want)[:300], "got": str(got)[:300]}, part="special"))
                stats["traces_validated"] += 1
            except Exception as ex_:  # noqa: BLE001
                vs.append(mkv("polars", "special-values", label, f"exception:{X.exc_label(ex_)}", {"message": str(ex_)[:300]}, part="special"))


def mkv(backend, inv, label, sym, detail, part="colexpr"):
    return {"invariant": inv, "backend": backend, "symptom": sym, "world": {"tables": {}}, "history": [["colexpr", label]], "detail": detail,
            "class": f"{inv}|{backend}|{label}|{sym}", "count": 1, "py": label, "params": {"part": part}}


def make_explorer(world_, depth=2):
    return X.Explorer(world_, alphabet=alphabet, checks=[check_targets], depth=depth, oracle="model", names="set")


N_FIRST = c02.N_EVENTS + len(ENDINGS)


def tasks(tier):
    out = [{"part": "colexpr"}, {"part": "special"}]
    for wi in range(len(worlds(tier))):
        out += [{"part": "hist", "world": wi, "first": list(range(i, i + 2))} for i in range(0, N_FIRST, 2)]
    return out


def run_task(task, tier):
    if task["part"] in ("colexpr", "special"):
        from collections import Counter

        stats, vs = Counter(), []
        (colexpr_part if task["part"] == "colexpr" else special_part)(stats, vs)
        return {"stats": dict(stats), "outcomes": {}, "levels": {}, "violations": vs, "samples": []}
    d = DEPTH[tier]
    return base.run_history_task(lambda ww: make_explorer(ww, d), worlds(tier)[task["world"]], [["source", "T"]], task["first"],
                                 params={"depth": d})


def recheck(rec):
    p = rec.get("params") or {}
    if p.get("part") in ("colexpr", "special"):
        from collections import Counter

        stats, vs = Counter(), []
        (colexpr_part if p["part"] == "colexpr" else special_part)(stats, vs)
        return [v for v in vs if v["class"] == rec["class"]]
    return base.recheck_history(lambda ww: make_explorer(ww, p.get("depth", 2)), rec)


def describe(tier):
    return {
        "alphabet": "the 31-event C02 alphabet + 6 endings: " + "; ".join(T.py_event(e) for e in ENDINGS),
        "depth": DEPTH[tier],
        "input_family": "3 tables: 4 rows with nulls, empty, a single row of nulls (+ R for the join)",
        "targets": ["Polars()", "Polars(lazy=True).collect()", "Pandas()", "DictOfLists", "ListOfDicts", "Dict", "Scalar", "Table(exported frame) >> export"],
        "backends": {"polars": "all targets", "sqlite": "Polars(), DictOfLists, ListOfDicts, Dict, Scalar"},
        "special_values": "11 pipelines over a float table with NaN, +inf, -inf, -0.0 and null (polars only): Polars(lazy), Pandas, DictOfLists, ListOfDicts, Dict, Scalar, ColExpr.export(Pandas) and the re-import keep the five apart exactly as Polars() does",
        "colexpr_export": "16 expressions (columns, arithmetic, case, cast, aggregates, window functions) via ColExpr.export(Polars / Pandas) vs mutate >> select >> export; 7 expressions mixing references of the source and of a derived (filtered / arranged / sliced) table",
        "oracle": "invariant: every target has the same names, order and values as Polars() (and the reference model agrees with Polars()); Dict / Scalar raise TypeError exactly when the shape does not fit; re-import reproduces data and dtypes",
        "regime": "tree",
        "assumptions": ["engines trusted", "reference model (for the Polars() frame itself)"],
    }
