"""C12 - static types predict the exported types.

(ops)   every operator x every declared signature instantiated over the executable type
        universe (8 integer widths, 2 float widths, bool, string, date, datetime; constant
        parameters as literals), as ``mutate(y=op(...))`` and - for aggregates - as
        ``summarize(y=op(...))``; thorough: one nesting level of type-changing operators;
(verbs) columns created by join padding, union of different widths, literals, null
        literals, casts, case expressions with mixed branches; every source column;
(round) Table(exported frame) and collect() reproduce the exported column types.

Oracle: the dtype the library assigns before execution (``tbl.y.dtype()``) against the
dtype of the exported column: polars exactly for concrete types / family for generic
Int, Float; SQLite up to the numeric family; null-typed only for all-null columns."""

from __future__ import annotations

import warnings
from collections import Counter

import polars as pl

import pydiverse.transform as pdt
from pydiverse.common import Bool, Date, Datetime, Float, Int, NullType, String
from pydiverse.transform._internal.ops.op import Ftype
from pydiverse.transform._internal.tree import types as ptypes

from .. import opsuniverse as U
from .. import world as W

PROPERTY = "C12"


def family_ok(static, pl_dtype, backend, all_null):
    """does the exported polars dtype fit the static pdt dtype?"""
    d = ptypes.without_const(static)
    if isinstance(d, NullType):
        return pl_dtype == pl.Null or all_null
    if pl_dtype == pl.Null:
        return all_null and backend != "polars" or (all_null and False)
    if backend == "polars":
        if ptypes.is_subtype(d):
            want = d.to_polars()
            if isinstance(want, pl.Datetime) or want == pl.Datetime:
                return isinstance(pl_dtype, pl.Datetime)
            return pl_dtype == want
        if type(d) is Int:
            return pl_dtype.is_integer()
        if type(d) is Float:
            return pl_dtype.is_float()
        return False
    # SQL: numeric family
    if d.is_int():
        return pl_dtype.is_integer()
    if d.is_float():
        return pl_dtype.is_float() or pl_dtype.is_decimal()
    if isinstance(d, Bool):
        return pl_dtype == pl.Boolean
    if isinstance(d, String):
        return pl_dtype == pl.String
    if type(d) is Date:
        return pl_dtype == pl.Date
    if type(d) is Datetime:
        return isinstance(pl_dtype, pl.Datetime)
    return False


def check_table(tbl, backend, label, vs, stats, world, colnames=None):
    """compare static and exported dtype of the given columns of ``tbl``"""
    try:
        with warnings.catch_warnings():
            warnings.simplefilter("ignore")
            df = tbl >> pdt.export(pdt.Polars())
    except Exception as e:  # noqa: BLE001
        name = type(e).__name__
        if name == "NotSupportedError":
            stats["not_supported"] += 1
            return None
        stats[f"export_exception:{name}"] += 1
        vs.append(mk(backend, "export-failed", label, f"exception:{name}", {"message": str(e)[:300]}, world))
        return None
    for c in (colnames or df.columns):
        static = tbl[c].dtype()
        all_null = df.get_column(c).null_count() == df.height
        stats["columns_compared"] += 1
        if not family_ok(static, df.schema[c], backend, all_null):
            vs.append(mk(backend, "static-type-predicts-export", label, f"{ptypes.without_const(static)}->{df.schema[c]}",
                         {"column": c, "static": repr(static), "exported": str(df.schema[c]), "all_null": all_null}, world))
    return df


def mk(backend, invariant, label, symptom, detail, world):
    return {"invariant": invariant, "backend": backend, "symptom": symptom, "world": world, "history": [["program", label]],
            "detail": detail, "class": f"{invariant}|{backend}|{label}|{symptom}", "count": 1, "py": label,
            "params": {"label": label}}


# ---------------------------------------------------------------------------------------

def op_programs(tier):
    progs = []
    for name, op in U.operators():
        if name in U.SKIP_OPS or U.is_marker(op):
            continue
        for si, args in U.instantiations(op, implicit=True):
            if name == "neg" and args[0][1].startswith("uint"):
                continue  # the negation of an unsigned value overflows (DESIGN 4.2)
            if name == "sub" and args[0][1] in ("date", "datetime"):
                continue  # Duration results are outside the type universe of the property
            progs.append((name, si, args))
    return progs


def nested_programs():
    """(outer op name, inner op name): outer(inner(cols), col) for type-changing operators"""
    inner = ["truediv", "floordiv", "mean", "sum", "equal", "less_than", "add", "str_len", "dt_year", "count", "fill_null", "horizontal_max"]
    outer = ["add", "mul", "truediv", "neg", "abs", "sum", "mean", "max", "is_null", "fill_null", "round", "horizontal_min", "bool_and", "bool_invert", "cum_sum"]
    return [(o, i) for o in outer for i in inner]


def run_op_program(built, backend, name, si, args, stats, vs, world):
    from pydiverse.transform._internal.ops import ops as _ops

    op = getattr(_ops, name)
    tbl = built.tables["T"]
    label = f"{name}({U.describe_args(args)})"
    try:
        expr = U.build(op, args, tbl)
    except Exception as e:  # noqa: BLE001
        stats[f"construction:{type(e).__name__}"] += 1
        return
    contexts = ["mutate"]
    if op.ftype == Ftype.AGGREGATE:
        contexts.append("summarize")
    for cx in contexts:
        stats["states"] += 1
        stats["transitions"] += 1
        try:
            with warnings.catch_warnings():
                warnings.simplefilter("ignore")
                t2 = tbl >> (pdt.mutate(y=expr) if cx == "mutate" else pdt.summarize(y=expr))
        except Exception as e:  # noqa: BLE001
            if type(e).__name__ in ("SubqueryError", "NotSupportedError"):
                stats["refused"] += 1
                continue
            vs.append(mk(backend, "verb-accepts-well-typed", f"{cx}:{label}", f"exception:{type(e).__name__}", {"message": str(e)[:300]}, world))
            continue
        df = check_table(t2, backend, f"{cx}:{label}", vs, stats, world, ["y"])
        if df is not None:
            stats["traces_validated"] += 1


def run_nested(built, backend, outer, inner, stats, vs, world):
    from pydiverse.transform._internal.ops import ops as _ops
    from pydiverse.transform._internal.tree.col_expr import ColFn

    tbl = built.tables["T"]
    oop, iop = getattr(_ops, outer), getattr(_ops, inner)
    for _, iargs in U.instantiations(iop)[:6]:
        try:
            ie = U.build(iop, iargs, tbl)
        except Exception:  # noqa: BLE001
            continue
        for _, oargs in U.instantiations(oop)[:4]:
            real = [ie]
            for kind, t in oargs[1:]:
                real.append(tbl[f"c_{t}"] if kind == "col" else U.LITERALS[t])
            kw = {"arrange": [tbl.k]} if outer in ("cum_sum",) else {}
            try:
                expr = ColFn(oop, *real, **kw)
            except Exception:  # noqa: BLE001
                stats["nested_ill_typed"] += 1
                continue
            label = f"{outer}({inner}({U.describe_args(iargs)}), {U.describe_args(oargs[1:])})"
            stats["states"] += 1
            stats["transitions"] += 1
            try:
                with warnings.catch_warnings():
                    warnings.simplefilter("ignore")
                    t2 = tbl >> pdt.mutate(y=expr)
            except Exception as e:  # noqa: BLE001
                if type(e).__name__ in ("SubqueryError", "NotSupportedError", "FunctionTypeError"):
                    stats["refused"] += 1
                    continue
                vs.append(mk(backend, "verb-accepts-well-typed", f"mutate:{label}", f"exception:{type(e).__name__}", {"message": str(e)[:300]}, world))
                continue
            if check_table(t2, backend, f"mutate:{label}", vs, stats, world, ["y"]) is not None:
                stats["traces_validated"] += 1


VERB_WORLD = {"tables": {
    "A": {"cols": [["k", "int"], ["i8", "int8"], ["i64", "int64"], ["f32", "float32"], ["f64", "float64"], ["b", "bool"], ["s", "str"], ["d", "date"], ["t", "datetime"], ["u16", "uint16"]],
          "rows": [[1, 1, 10, 1.5, 2.5, True, "a", "d:2020-01-02", "t:2020-01-02T03:04:05", 7], [2, None, None, None, None, None, None, None, None, None]]},
    "B": {"cols": [["k", "int"], ["i8", "int64"], ["i64", "int8"], ["f32", "float64"], ["f64", "float32"], ["b", "bool"], ["s", "str"], ["d", "date"], ["t", "datetime"], ["u16", "int32"]],
          "rows": [[1, 5, 6, 0.5, 0.25, False, "z", "d:1999-12-31", "t:1999-12-31T23:59:59", 3], [3, 1, 1, 1.0, 1.0, True, "y", "d:2020-01-02", "t:2020-01-02T00:00:00", 1]]},
}}


def verb_programs(built):
    a, b = built.tables["A"], built.tables["B"]
    C = pdt.C
    return [
        ("source", lambda: a),
        ("mutate-literals", lambda: a >> pdt.mutate(li=1, lf=1.5, ls="x", lb=True, ln=None, lw=a.i8 + 1, lfw=a.i64 + 1.5, lf32=a.f32 + 1)),
        ("mutate-null-typed", lambda: a >> pdt.mutate(n1=pdt.lit(None), n2=pdt.coalesce(None, None), n3=pdt.lit(None) == pdt.lit(None))),
        ("mutate-fill-null", lambda: a >> pdt.mutate(x=pdt.lit(None).fill_null(a.i8), y=a.i8.fill_null(None), z=pdt.coalesce(None, a.f32))),
        ("mutate-case-mixed", lambda: a >> pdt.mutate(c1=pdt.when(a.b).then(a.i8).otherwise(a.i64), c2=pdt.when(a.b).then(a.i8).otherwise(1.5),
                                                        c3=pdt.when(a.b).then(None).otherwise(a.f32), c4=pdt.when(a.b).then(a.i8), c5=pdt.when(a.b).then(1).otherwise(2))),
        ("mutate-casts", lambda: a >> pdt.mutate(x1=a.i8.cast(pdt.Int64), x2=a.i64.cast(pdt.Float32), x3=a.f64.cast(pdt.Int16), x4=a.b.cast(pdt.Int8),
                                                   x5=a.i64.cast(pdt.String), x6=a.t.cast(pdt.Date), x7=a.d.cast(pdt.Datetime), x8=a.u16.cast(pdt.Float64))),
        ("mutate-bool-arith", lambda: a >> pdt.mutate(s=a.b + a.b, t2=a.b.sum(), u=a.i8 / a.i8, v=a.i8 // a.i8, w=a.i8.mean(), m=a.i8.max(), c=a.s.count(), n=pdt.count())),
        ("summarize", lambda: a >> pdt.summarize(s8=a.i8.sum(), m8=a.i8.mean(), mx=a.f32.max(), mn=a.s.min(), an=a.b.any(), bs=a.b.sum(), c=a.d.count(), n=pdt.count(), md=a.d.max(), mt=a.t.min())),
        ("summarize-grouped", lambda: a >> pdt.group_by(a.b) >> pdt.summarize(s=a.u16.sum(), m=a.i64.mean(), x=a.f64.min())),
        ("summarize-grouped-mixed", lambda: a >> pdt.group_by(a.k) >> pdt.summarize(m=a.k + a.i8.sum(), c=a.k < a.i64.max(), w=pdt.when(a.i8.sum() > 3).then(a.k).otherwise(0),
                                                                                s=a.s.max(), f=a.k * a.f32.mean())),
        ("summarize-empty", lambda: a >> pdt.filter(a.k > 99) >> pdt.summarize(s=a.i8.sum(), m=a.f32.mean(), c=a.s.count(), mx=a.d.max())),
        ("join-left-padding", lambda: a >> pdt.left_join(b, a.k == b.k, suffix="_r")),
        ("join-full-padding", lambda: a >> pdt.full_join(b, a.k == b.k, suffix="_r")),
        ("union-widths", lambda: a >> pdt.union(b)),
        ("union-widths-distinct", lambda: b >> pdt.union(a, distinct=True)),
        ("union-permuted", lambda: a >> pdt.select(a.k, a.i8, a.f64, a.s) >> pdt.union(b >> pdt.select(b.s, b.f64, b.i8, b.k))),
        ("union-permuted-2", lambda: b >> pdt.select(b.i64, b.f32) >> pdt.union(a >> pdt.select(a.f32, a.i64), distinct=True) >> pdt.mutate(z=C.i64 + 1, w=C.f32 * 2)),
        ("union-then-mutate", lambda: a >> pdt.union(b) >> pdt.mutate(z=C.i8 + 1, w=C.f64 * 2)),
        ("all-null-column", lambda: a >> pdt.filter(a.k == 2) >> pdt.mutate(z=a.i8 + 1)),
        ("window", lambda: a >> pdt.mutate(r=pdt.row_number(arrange=a.k), sh=a.i8.shift(1, arrange=a.k), cs=a.f32.cum_sum(arrange=a.k), rk=pdt.rank(arrange=a.k))),
        ("float-fn-int-values", lambda: a >> pdt.filter(a.k == 2) >> pdt.mutate(y1=a.f64.fill_null(0), y2=pdt.coalesce(a.f32, 7), y3=pdt.max(a.f64, 5), y4=pdt.min(a.f64, a.k))),
        ("float-fn-int-values-agg", lambda: a >> pdt.filter(a.k == 2) >> pdt.summarize(m1=a.f64.fill_null(0).max(), m2=pdt.coalesce(a.f64, a.k).min(), m3=a.f64.fill_null(3).mean())),
        ("mutate-round", lambda: a >> pdt.mutate(r1=a.i8.round(-1), r2=a.i64.round(-1), r3=a.f32.round(-1), r4=a.u16.round(1), r5=a.f64.round(0))),
        ("lit-typed", lambda: a >> pdt.mutate(l1=pdt.lit(1, pdt.Float()), l2=pdt.lit(1, pdt.Float32()), l3=pdt.lit(1, pdt.Int8()), l4=pdt.lit(2, pdt.Float64()),
                                                l5=pdt.lit(1.0, pdt.Float()), l6=pdt.lit(None, pdt.Int16()), l7=pdt.lit(1, pdt.Float()) + a.i8, l8=pdt.lit(3, pdt.UInt8()) * 2)),
        ("union-stale-left-ref", lambda: a >> pdt.select(a.k, a.i8, a.f32) >> pdt.union(b >> pdt.select(b.k, b.i8, b.f32)) >> pdt.mutate(y=a.i8 + 1, z=a.f32 * 2, w=C.i8 + 1)),
        ("union-int-float-stale-ref", lambda: a >> pdt.select(a.k, a.i64) >> pdt.union(b >> pdt.mutate(i64=b.f32) >> pdt.select(b.k, C.i64))
         >> pdt.mutate(y=a.i64 + 1, z=C.i64 + 1, c=pdt.when(a.k > 1).then(a.i64).otherwise(0), y2=(a.i64 + 1) * 2,
                       m=pdt.max(a.i64 * 2, 1), c2=pdt.when(a.k > 1).then(a.i64 + 1).otherwise(0), s2=(a.i64 * 2).sum())),
        ("union-const-columns", lambda: a >> pdt.select(a.k) >> pdt.mutate(w=1, f=None, s=1, d=2.5) >> pdt.union(b >> pdt.select(b.k) >> pdt.mutate(w=0.5, f=True, s=2, d=b.i8))
         >> pdt.mutate(w2=C.w * 2, s2=C.s + 1)),
        ("window-float-fill", lambda: a >> pdt.mutate(sr=a.i8.shift(1, 2.5, arrange=a.k).round(1), sf=a.i64.shift(-1, 0.5, arrange=a.k), inv=~(a.b & a.b), inv2=~(a.b | (a.k > 1)))),
        ("union-int-float-empty-right", lambda: a >> pdt.select(a.k, a.i64) >> pdt.union(b >> pdt.mutate(i64=b.f32) >> pdt.select(b.k, C.i64) >> pdt.filter(b.k > 99))
         >> pdt.mutate(s=C.i64.cast(pdt.String()), h=C.i64 / 2)),
        ("slice-arrange", lambda: a >> pdt.arrange(a.k) >> pdt.slice_head(1)),
    ]


def run_verbs(backend, stats, vs):
    built = W.build(VERB_WORLD, backend)
    try:
        for label, f in verb_programs(built):
            stats["states"] += 1
            stats["transitions"] += 1
            try:
                with warnings.catch_warnings():
                    warnings.simplefilter("ignore")
                    tbl = f()
            except Exception as e:  # noqa: BLE001
                vs.append(mk(backend, "verb-accepts-well-typed", label, f"exception:{type(e).__name__}", {"message": str(e)[:300]}, VERB_WORLD))
                continue
            df = check_table(tbl, backend, label, vs, stats, VERB_WORLD)
            if df is None:
                continue
            stats["traces_validated"] += 1
            if backend == "polars":
                # round trips: re-import and collect() reproduce the column types
                with warnings.catch_warnings():
                    warnings.simplefilter("ignore")
                    again = pdt.Table(df) >> pdt.export(pdt.Polars())
                    if dict(again.schema) != dict(df.schema):
                        vs.append(mk(backend, "reimport-reproduces-types", label, "schema", {"first": str(df.schema), "again": str(again.schema)}, VERB_WORLD))
                    try:
                        coll = tbl >> pdt.collect() >> pdt.export(pdt.Polars())
                        if dict(coll.schema) != dict(df.schema):
                            vs.append(mk(backend, "collect-reproduces-types", label, "schema", {"export": str(df.schema), "collect": str(coll.schema)}, VERB_WORLD))
                    except Exception as e:  # noqa: BLE001
                        vs.append(mk(backend, "collect-reproduces-types", label, f"exception:{type(e).__name__}", {"message": str(e)[:200]}, VERB_WORLD))
                    stats["round_trips"] += 2
    finally:
        built.close()


# ---------------------------------------------------------------------------------------

def tasks(tier):
    out = []
    n = len(op_programs(tier))
    for b in W.BACKENDS:
        for i in range(0, n, 60):
            out.append({"part": "ops", "backend": b, "range": [i, min(n, i + 60)]})
        out.append({"part": "verbs", "backend": b})
        if tier == "thorough":
            np_ = len(nested_programs())
            for i in range(0, np_, 12):
                out.append({"part": "nested", "backend": b, "range": [i, min(np_, i + 12)]})
    return out


def run_task(task, tier):
    stats = Counter()
    vs = []
    backend = task["backend"]
    if task["part"] == "verbs":
        run_verbs(backend, stats, vs)
    else:
        w = U.world()
        built = W.build(w, backend)
        try:
            if task["part"] == "ops":
                progs = op_programs(tier)
                for name, si, args in progs[task["range"][0]:task["range"][1]]:
                    run_op_program(built, backend, name, si, args, stats, vs, w)
            else:
                for outer, inner in nested_programs()[task["range"][0]:task["range"][1]]:
                    run_nested(built, backend, outer, inner, stats, vs, w)
        finally:
            built.close()
    merged: dict = {}
    for v in vs:
        if v["class"] in merged:
            merged[v["class"]]["count"] += 1
        else:
            merged[v["class"]] = v
    outcomes = {f"{backend}:{k}": n for k, n in stats.items()}
    samples = []
    if task["part"] == "ops" and task["range"][0] == 0:
        samples = [{"program": f"mutate(y={n}({U.describe_args(a)}))", "backend": backend} for n, _, a in op_programs(tier)[:3]]
    return {"stats": dict(stats), "outcomes": outcomes, "levels": {}, "violations": list(merged.values()), "samples": samples}


def recheck(rec):
    """re-run the single program named by the label"""
    label = rec["params"]["label"]
    backend = rec["backend"]
    stats, vs = Counter(), []
    run_verbs(backend, stats, vs)
    w = U.world()
    built = W.build(w, backend)
    try:
        for name, si, args in op_programs("quick"):
            if label.endswith(f"{name}({U.describe_args(args)})"):
                run_op_program(built, backend, name, si, args, stats, vs, w)
        if "(" in label and label.count("(") >= 2:
            for outer, inner in nested_programs():
                if label.startswith(f"mutate:{outer}({inner}("):
                    run_nested(built, backend, outer, inner, stats, vs, w)
    finally:
        built.close()
    return [v for v in vs if v["class"] == rec["class"]]


def describe(tier):
    progs = op_programs(tier)
    return {
        "operator_programs": len(progs),
        "operators": len({p[0] for p in progs}),
        "instantiation": "every declared signature; each parameter varied over all executable types that convert to it (Int: 8 widths, Float: 2 widths, S: int64/float64/bool/str/date/datetime/int8/uint32/float32) while the others stay canonical; constant parameters as literals; varargs with 2 and 3 arguments",
        "contexts": "mutate for all; summarize additionally for aggregates" + ("; nested: outer(inner(..), ..) for 15 x 12 type-changing operator pairs" if tier == "thorough" else ""),
        "verb_programs": [p[0] for p in verb_programs(W.build(VERB_WORLD, "polars"))],
        "backends": list(W.BACKENDS),
        "oracle": "static dtype (tbl.y.dtype()) vs exported polars dtype: polars exact for concrete types, family for generic Int/Float; SQLite numeric family; Null only for all-null columns; Table(export) and collect() reproduce the schema",
        "regime": "exhaustive over the stated instantiation; no history search",
        "assumptions": ["engines trusted", "ColFn(op, ...) constructed directly for the catalogue sweep (read-only internal)"],
    }
