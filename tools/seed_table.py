#!/venv/bin/python
"""Writes /verif/seeded/RESULTS.md from the meta.json files of the seeded changes."""
import json, os
rows = []
for sid in sorted(os.listdir("/verif/seeded")):
    p = f"/verif/seeded/{sid}/meta.json"
    if not os.path.exists(p):
        continue
    m = json.load(open(p))
    evs = m.get("evaluations", [])
    last = m.get("evaluation", {})
    first_by_check = {}
    for e in evs:
        for c, r in e.get("checks", {}).items():
            first_by_check.setdefault(c, r["detected"])
    last_by_check = {}
    for e in evs:
        for c, r in e.get("checks", {}).items():
            last_by_check[c] = r["detected"]
    caught = [c for c, d in last_by_check.items() if d]
    missed_first = [c for c, d in first_by_check.items() if not d]
    cls = ""
    for c, r in last.get("checks", {}).items():
        for ln in r.get("lines", []):
            if ln.strip().startswith("class:"):
                cls = ln.strip()[7:]
                break
        if cls:
            break
    rows.append((sid, m.get("property", "?"), (m.get("summary") or "")[:160].replace("|", "/"), (m.get("needs_to_manifest") or "")[:160].replace("|", "/").replace("\n", " "),
                 "yes" if last.get("confirmed") else "NO", ", ".join(sorted(caught)) or "-", ", ".join(sorted(missed_first)) or "-", cls[:110].replace("|", "/")))
with open("/verif/seeded/RESULTS.md", "w") as f:
    f.write("# Seeded property-breaking changes (written by independent sub-agents) and what the checks did with them\n\n")
    f.write("Each change was confirmed in a fresh scratch worktree (demo passes on the original code, pinned suite still 64 passed with the patch, demo fails with the patch), "
            "then applied to /repo, the named checks were run (quick tier) and /repo was restored. 'missed at first' lists checks that did not report the change when it was first tried; "
            "they were strengthened afterwards (DESIGN.md section 8) and re-run.\n\n")
    f.write("| id | property | change | needs to manifest | confirmed | caught by | missed at first | first violation class |\n|---|---|---|---|---|---|---|---|\n")
    for r in rows:
        f.write("| " + " | ".join(r) + " |\n")
print(len(rows), "seeds")
