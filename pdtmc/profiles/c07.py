"""C07 - union stacks rows by column name; distinct removes duplicates.

Pairs of derived tables (permuted column orders, hidden columns on either side,
renames, filters), union with distinct in {False, True}, verbs after the union and
chained unions, on every pair of small tables with nulls and duplicates.  Oracle:
reference model (left names and order, multiset of rows, null = null for distinct); each
refusal case must be refused by the union call itself; hidden columns of either side are
probed after the union and must not be reachable."""

from __future__ import annotations

import itertools
import warnings
from collections import Counter

from .. import explore as X
from .. import terms as T
from .. import world as W
from . import base
from .common import Cn, lit, rows_upto

PROPERTY = "C07"
MAXROWS = {"quick": 1, "thorough": 2}
PERMS = list(itertools.permutations(["a", "b", "c"]))
TYPES = {"a": "int", "b": "str", "c": "int"}


def full_rows(rows):
    return [[a, b, None if a is None else a * 10] for a, b in rows]


def worlds(tier):
    ws = []
    tabs = rows_upto([[None, 1], [None, "u"]], MAXROWS[tier])
    extra = [[[1, "u"], [1, "u"]], [[None, None], [None, None], [1, None]]]
    perms = PERMS if tier == "thorough" else [PERMS[0], PERMS[3], PERMS[5]]
    for lrows, rrows in itertools.product(tabs + extra, tabs + extra):
        if tier == "quick" and len(lrows) + len(rrows) > 3:
            continue
        for pi, perm in enumerate(perms):
            if tier == "thorough" and pi > 0 and (len(lrows) > 1 or len(rrows) > 1):
                # the column order of the right table is crossed with the tables of <= 1 row
                continue
            idx = [["a", "b", "c"].index(c) for c in perm]
            ws.append({"tables": {
                "L": {"cols": [[c, TYPES[c]] for c in ("a", "b", "c")], "rows": full_rows(lrows)},
                "R": {"cols": [[c, TYPES[c]] for c in perm], "rows": [[r[i] for i in idx] for r in full_rows(rrows)]},
            }})
    return ws


def src(t, n):
    return ["col", "src", t, n]


LPRE = [
    ["select", [src("L", "b"), src("L", "a"), src("L", "c")]],  # reorder
    ["mutate", [["a", ["add", src("L", "a"), lit(1)]]]],  # hidden twin of a
    ["filter", [["is_not_null", src("L", "a")]]],
    ["rename", [["a", "z"]]],
    ["mutate", [["h", ["mul", src("L", "c"), lit(2)]]]],  # extra column (then names differ)
    ["select", [src("L", "a"), src("L", "b")]],  # c hidden on the left only (names differ)
    ["group_by", [src("L", "b")]],
    ["slice_head", 2, 0],  # (then alias(): the left operand is a subquery)
]
RHIST = [
    [],
    [["select", [src("R", "c"), src("R", "b"), src("R", "a")]]],
    [["mutate", [["a", ["sub", src("R", "a"), lit(1)]]]]],  # hidden twin on the right
    [["filter", [["is_not_null", src("R", "b")]]]],
    [["rename", [["a", "z"]]]],
    [["select", [src("R", "a"), src("R", "b")]]],
    [["mutate", [["b", ["str_len", src("R", "b")]]]]],  # b becomes int: no common type with str
    [["mutate", [["c", ["cast", src("R", "c"), "float"]]]]],  # int/float: common type float
    [["group_by", [src("R", "b")]]],
    [["mutate", [["h", lit(0)]], ["c", src("R", "c")]], ["select", [["col", "C", "a"], ["col", "C", "b"], ["col", "C", "c"]]]],
    # a hidden column created later than the visible column that finally carries its name
    # (matches the left operand after rename a -> z)
    [["mutate", [["z", ["mul", src("R", "a"), lit(1000)]]]], ["drop", [["col", "C", "z"]]], ["rename", [["a", "z"]]]],
]
POST = [
    ["filter", [["eq", Cn("a"), lit(1)]]],
    ["mutate", [["y", ["add", Cn("a"), lit(1)]]]],
    ["select", [Cn("b")]],
    ["arrange", [["nulls_last", Cn("a")], ["nulls_first", Cn("b")]]],
    ["summarize", [["n", ["count_star"]], ["m", ["max", Cn("a")]]]],
    ["group_by", [Cn("b")]],
    ["mutate", [["c", lit(7)], ["h", lit(8)]]],  # names that hidden columns of an operand may have had
    ["summarize", [["n", ["count_star"]]]],
    ["mutate", [["y", ["round", Cn("c"), lit(1)]]]],  # the SQL type of a union column matters for round
]
SELF = [["union", {"src": "L", "hist": []}, False], ["union", {"src": "L", "hist": []}, True],
        ["union", {"src": "L", "hist": [["filter", [["is_not_null", src("L", "a")]]]]}, False]]
# right operands that need a subquery themselves
RSUB = [[["join", {"src": "R", "alias": "S"}, "inner", [["eq", src("R", "a"), ["col", "right", "a"]]]], ["select", [src("R", "a"), src("R", "b"), src("R", "c")]]],  # a self-join inside the right operand
        [["mutate", [["c", ["truediv", src("R", "c"), lit(4)]]]]],  # int / float union with fractional values (then round)
        [["arrange", [src("R", "a"), src("R", "b")]], ["slice_head", 1, 0]],
        [["arrange", [src("R", "a"), src("R", "b")]], ["slice_head", 1, 0], ["alias"]],
        [["mutate", [["c", ["sum", src("R", "c")]]]], ["alias"]]]


def union_events(rhists, fn_form=False):
    out = []
    for rh in rhists:
        for distinct in (False, True):
            out.append(["union", {"src": "R", "hist": rh}, distinct])
    if fn_form:
        out.append(["union", {"src": "R", "hist": []}, False, "fn"])
    return out


def alphabet(tier):
    def f(st, hist):
        kinds = [e[0] for e in hist[1:]]
        n_union = kinds.count("union")
        if n_union == 0:
            if not kinds:
                return LPRE + union_events(RHIST, fn_form=True) + SELF + union_events(RSUB)
            if kinds == ["slice_head"]:
                return [["alias"]] + union_events(RHIST[:2])
            if kinds == ["slice_head", "alias"]:
                return union_events(RHIST[:2] + RSUB[3:4])
            if len(kinds) == 1:
                return union_events(RHIST if tier == "thorough" else RHIST[:3] + RHIST[4:6] + RHIST[10:])
            return []
        after = kinds[kinds.index("union") + 1:]
        if not after:
            # verbs after the union and chains of unions (the right operand again: the same
            # source table may appear twice in a union)
            return POST + [["union", {"src": "R", "hist": [], "alias": True}, False],
                           ["union", {"src": "R", "hist": [], "alias": True}, True]]
        if tier == "thorough" and len(after) == 1 and after[0] in ("filter", "mutate"):
            return [["union", {"src": "R", "hist": [], "alias": True}, True], ["summarize", [["n", ["count_star"]]]]]
        return []
    return f


def probes(ex, hist, mstates):
    if hist[-1][0] != "union":
        return []
    out = [["mutate", [["probe", src("L", "a")]]], ["mutate", [["probe", src("R", "a")]]],
           ["mutate", [["probe", src("L", "c")]]]]
    return out


def make_explorer(world, tier="quick"):
    return X.Explorer(world, alphabet=alphabet(tier), checks=[], depth=5, oracle="model", names="list", probes=probes)


def tasks(tier):
    n = len(worlds(tier))
    step = 6 if tier == "quick" else 4
    out = [{"worlds": list(range(i, min(n, i + step)))} for i in range(0, n, step)]
    out.append({"misc": "backends"})
    return out


def run_task(task, tier):
    if "misc" in task:
        return misc_backends()
    ws = worlds(tier)
    total = {"stats": Counter(), "outcomes": Counter(), "levels": Counter(), "violations": [], "samples": []}
    for wi in task["worlds"]:
        res = base.run_history_task(lambda ww: make_explorer(ww, tier), ws[wi], [["source", "L"]], None, params={"tier": tier})
        for k in ("stats", "outcomes", "levels"):
            for kk, vv in res[k].items():
                total[k][kk] += vv
        total["violations"].extend(res["violations"])
        if len(total["samples"]) < 2:
            total["samples"].extend(res["samples"][:1])
    return {k: (dict(v) if isinstance(v, Counter) else v) for k, v in total.items()}


def misc_backends(world=None):
    """union / join across backends must be refused by the call itself (TypeError)"""
    import pydiverse.transform as pdt

    w = world or worlds("quick")[5]
    vs = []
    n = 0
    with warnings.catch_warnings():
        warnings.simplefilter("ignore")
        bp, bs = W.build(w, "polars"), W.build(w, "sqlite")
        for lname, lb, rb in (("polars", bp, bs), ("sqlite", bs, bp)):
            for distinct in (False, True):
                n += 1
                try:
                    lb.tables["L"] >> pdt.union(rb.tables["R"], distinct=distinct)
                    sym = "accepted"
                except TypeError:
                    sym = None
                except Exception as e:  # noqa: BLE001
                    sym = f"exception:{type(e).__name__}"
                if sym:
                    vs.append({"invariant": "union-across-backends-refused", "backend": lname, "symptom": sym,
                               "world": w, "history": [["source", "L"], ["union", {"src": "R"}, distinct]],
                               "detail": {"expected": "TypeError at the union call"},
                               "class": f"union-across-backends-refused|{lname}|union|{sym}", "count": 1,
                               "params": {"misc": "backends"}, "py": "L(polars) >> union(R(sqlite))"})
        bs.close()
    return {"stats": {"states": n, "transitions": n, "traces_validated": n}, "outcomes": {"misc:TypeError": n},
            "levels": {"1": n}, "violations": vs, "samples": []}


def recheck(rec):
    p = rec.get("params") or {}
    if p.get("misc"):
        return misc_backends(rec["world"])["violations"]
    return base.recheck_history(lambda ww: make_explorer(ww, p.get("tier", "quick")), rec)


def describe(tier):
    return {
        "left_preparations": [T.py_event(e) for e in LPRE],
        "right_preparations": [" >> ".join(T.py_event(e) for e in rh) or "-" for rh in RHIST],
        "after_union": [T.py_event(e) for e in POST] + ["union(R >> alias(), distinct=False/True)  (chain)"],
        "refusal_cases": "different visible names (rename / extra column / hidden on one side), str vs int column, grouped left / right, different backends",
        "column_orders_of_right_table": len(PERMS) if tier == "thorough" else 3,
        "input_family": f"every pair of tables with 0..{MAXROWS[tier]} rows over a in {{null,1}}, b in {{null,'u'}} (c := 10*a) plus tables with duplicate rows" + (" (right column order crossed with tables of <= 1 row)" if tier == "thorough" else " (pairs with at most 3 rows in total)"),
        "n_worlds": len(worlds(tier)),
        "depth": 4,
        "backends": ["polars", "sqlite"],
        "oracle": "reference model: left names and order, rows matched by name, multiplicities for distinct=False, each distinct row once for distinct=True (null = null); refusals raised by union itself; hidden columns not reachable afterwards",
        "regime": "tree",
        "assumptions": ["reference model", "engines trusted"],
    }
