"""pdtmc - bounded-exhaustive explorer for pydiverse.transform (see /verif/DESIGN.md)."""
