"""C04 - summarize and aggregate functions: one row per group, nulls ignored.

Staged programs  [pre] [group_by [group_by(add)]] summarize [post [post]]  over every
table with at most 2 (quick) / 3 (thorough) rows over g,x in {null,1,2} (bool and string
key columns derived), each state compared with the reference model on both backends."""

from __future__ import annotations

from .. import explore as X
from .. import terms as T
from . import base
from .common import Cn, col, lit, rows_upto

PROPERTY = "C04"
COLS = [["k", "int"], ["g", "int"], ["x", "int"], ["b", "bool"], ["s", "str"]]
MAXROWS = {"quick": 1, "thorough": 3}


def derive(rows):
    out = []
    for k, g, x in rows:
        b = None if x is None else (x == 2)
        s = None if g is None else "ab"[g - 1]
        out.append([k, g, x, b, s])
    return out


ADV = [
    [[1, 1, 1], [2, 1, 2], [3, 2, None], [4, 2, None]],  # an all-null group
    [[1, None, 2], [2, None, None], [3, 1, 2]],  # null key group
    [[1, 2, 2], [2, 2, 2], [3, 2, 1]],  # one group, duplicates
    [[1, 1, None], [2, 2, None]],  # every value null
    [[1, 1, 2], [2, 2, 1], [3, None, 1], [4, 1, None], [5, 2, 2]],
]


def worlds(tier):
    ws = []
    for rows in rows_upto([[None, 1, 2], [None, 1, 2]], MAXROWS[tier], with_id=True):
        ws.append({"tables": {"T": {"cols": COLS, "rows": derive(rows)}}})
    for rows in ADV:
        ws.append({"tables": {"T": {"cols": COLS, "rows": derive(rows)}}})
    return ws


TT = "T"
x, g, b, s, k = (col(TT, n) for n in ("x", "g", "b", "s", "k"))

PRE = [
    ["filter", [["ge", x, lit(1)]]],
    ["mutate", [["p", ["gt", x, lit(1)]]]],  # computed nullable boolean key
    ["arrange", [k]],
    ["filter", [["is_null", g]]],
    ["mutate", [["c", lit(1)]]],  # constant key (not part of GROUP BY on SQL)
]
GROUP = [
    ["group_by", [g]],
    ["group_by", [b]],
    ["group_by", [s]],
    ["group_by", [g, b]],
    ["group_by", [Cn("p")]],
    ["group_by", [Cn("c")]],
]
GROUP_ADD = [["group_by", [b], True], ["group_by", [g], True]]
# a second group_by without add= replaces the grouping (an overlapping and the identical column list; disjoint ones arise from the other first-level groupings)
REGROUP = [["group_by", [g, b]], ["group_by", [g]]]
# verbs between group_by and summarize (a filter here acts on the rows, not on the groups)
MID = [["filter", [["ge", x, lit(1)]]]]
SUMM = [
    ["summarize", [["a1", ["sum", x]], ["a2", ["count_star"]]]],
    ["summarize", [["a1", ["mean", x]], ["a2", ["count", x]]]],
    ["summarize", [["a1", ["min", x]], ["a2", ["max", x]]]],
    ["summarize", [["a1", ["any", b]], ["a2", ["all", b]], ["a3", ["sum", b]]]],
    ["summarize", [["a1", ["sum", x, {"filter": [["eq", g, lit(1)]]}]], ["a2", ["count_star", {"filter": [["gt", x, lit(1)]]}]]]],
    ["summarize", [["a1", ["count", x, {"filter": [b]}]], ["a2", ["max", x, {"filter": [["is_not_null", g]]}]]]],
    ["summarize", [["a1", ["sub", ["max", x], ["min", x]]], ["a2", ["add", ["count_star"], ["count", g]]]]],
    ["summarize", [["a1", ["sum", ["add", ["mul", x, lit(2)], lit(1)]]], ["a2", ["min", s]]]],
    ["summarize", [["a1", ["add", ["sum", x], g]]]],  # grouping column in an expression
    ["summarize", [["g", ["sum", x]], ["a1", ["count_star"]]]],  # overwrites a grouping column
    ["summarize", [["a1", ["fill_null", ["sum", x], lit(0)]], ["a2", ["max", b]]]],
    ["summarize", [["a1", ["case", [[["gt", g, lit(1)], ["sum", x]]], g]], ["a2", ["case", [[["gt", ["max", x], lit(1)], lit(1)]], lit(0)]]]],  # aggregate / grouping column in the branches, aggregate in the condition
    ["summarize", []],  # only the grouping columns
]
POST = [
    ["filter", [["gt", Cn("a1"), lit(1)]]],
    ["filter", [["eq", Cn("g"), lit(1)]]],
    ["filter", [["is_null", Cn("a1")]]],
    ["mutate", [["z", ["add", Cn("a1"), lit(1)]]]],
    ["select", [Cn("a1")]],
    ["arrange", [["nulls_last", Cn("a1")]]],
    ["summarize", [["n", ["count_star"]], ["t", ["sum", Cn("a2")]]]],  # nested summarize (refused on SQL)
    ["alias"],
]
POST2 = [
    ["summarize", [["n", ["count_star"]], ["t", ["sum", Cn("a2")]]]],  # after alias: second-level aggregate
    ["group_by", [Cn("a2")]],
    ["filter", [["ge", Cn("a2"), lit(1)]]],
    ["summarize", [["n", ["count_star"]]]],  # second-level aggregates that do not need an aggregate column
    ["summarize", [["n", ["count_star"]], ["m", ["max", Cn("g")]], ["c", ["count", Cn("g")]]]],  # (also after summarize())
]
POST3 = [["summarize", [["n", ["count_star"]], ["m", ["max", Cn("a1")]]]]]


def stage(hist):
    kinds = [e[0] for e in hist[1:]]
    n_sum = kinds.count("summarize")
    if n_sum == 0:
        if "group_by" in kinds:
            if kinds[-1] != "group_by":
                return "mid"
            return "grouped2" if kinds.count("group_by") > 1 else "grouped"
        return "pre1" if kinds else "start"
    after = kinds[kinds.index("summarize") + 1:]
    if not after:
        return "post"
    if after == ["alias"]:
        return "post2"
    if after == ["alias", "group_by"]:
        return "post3"
    return "end"


def alphabet(st, hist):
    sg = stage(hist)
    if sg == "start":
        return PRE + GROUP + SUMM
    if sg == "pre1":
        return GROUP + SUMM
    if sg == "grouped":
        return GROUP_ADD + REGROUP + MID + SUMM
    if sg == "grouped2":
        return SUMM
    if sg == "mid":
        return SUMM
    if sg == "post":
        return POST
    if sg == "post2":
        return POST2
    if sg == "post3":
        return POST3
    return []


N_FIRST = len(PRE + GROUP + SUMM)


def make_explorer(world):
    return X.Explorer(world, alphabet=alphabet, checks=[], depth=7, oracle="model", names="list")


def tasks(tier):
    n = len(worlds(tier))
    chunk = 3 if tier == "quick" else 1
    out = []
    for wi in range(n):
        for i in range(0, N_FIRST, 7):
            out.append({"world": wi, "first": list(range(i, i + 7))})
    return out


def run_task(task, tier):
    w = worlds(tier)[task["world"]]
    return base.run_history_task(make_explorer, w, [["source", "T"]], task["first"])


def recheck(rec):
    return base.recheck_history(make_explorer, rec)


def describe(tier):
    return {
        "stages": {
            "pre": [T.py_event(e) for e in PRE],
            "group_by": [T.py_event(e) for e in GROUP + GROUP_ADD],
            "between_group_by_and_summarize": [T.py_event(e) for e in MID],
            "summarize": [T.py_event(e) for e in SUMM],
            "post": [T.py_event(e) for e in POST + POST2 + POST3],
        },
        "program_shape": "[pre] [group_by [group_by(add=True)] [filter|mutate|arrange]] summarize [post | alias [group_by] summarize]",
        "depth": "up to 7 events (stage-structured)",
        "input_family": f"every table (multiset of rows) with 0..{MAXROWS[tier]} rows over g,x in {{null,1,2}}, plus 5 adversarial tables of 2-5 rows (all-null group, null key, duplicates); b := x==2 (null if x null), s := 'a'/'b' by g (null if g null); unique id k",
        "n_worlds": len(worlds(tier)),
        "backends": ["polars", "sqlite"],
        "oracle": "reference model: one row per distinct key combination (null its own key; ungrouped -> exactly one row also for empty input), grouping columns then aggregates, null-ignoring aggregates, count = 0 not null, filter= per aggregate, filter after summarize on aggregated rows",
        "regime": "tree (every staged program executed on every input)",
        "assumptions": ["reference model", "polars and SQLite engines trusted"],
    }
