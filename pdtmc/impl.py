"""Interpreter of event terms on the real library (one of the two independent
interpreters of the term language; the other is ``refmodel``).

Event / expression grammar: DESIGN.md appendix A.
"""

from __future__ import annotations

import builtins
import warnings

import polars as pl

import pydiverse.transform as pdt
from pydiverse.transform import C

from . import world as W

DTYPES = {
    "int": pdt.Int64,
    "int8": pdt.Int8,
    "int16": pdt.Int16,
    "int32": pdt.Int32,
    "int64": pdt.Int64,
    "uint8": pdt.UInt8,
    "uint16": pdt.UInt16,
    "uint32": pdt.UInt32,
    "uint64": pdt.UInt64,
    "float": pdt.Float64,
    "float32": pdt.Float32,
    "float64": pdt.Float64,
    "bool": pdt.Bool,
    "str": pdt.String,
    "date": pdt.Date,
    "datetime": pdt.Datetime,
    "Int": pdt.Int,
    "Float": pdt.Float,
}

import operator as _op

BINOPS = {
    "add": _op.add, "sub": _op.sub, "mul": _op.mul, "truediv": _op.truediv,
    "floordiv": _op.floordiv, "mod": _op.mod, "pow": _op.pow,
    "eq": _op.eq, "ne": _op.ne, "lt": _op.lt, "le": _op.le, "gt": _op.gt, "ge": _op.ge,
    "and": _op.and_, "or": _op.or_, "xor": _op.xor,
}
UNOPS = {"neg": _op.neg, "pos": _op.pos, "invert": _op.invert}
METHODS0 = ("abs", "is_null", "is_not_null", "floor", "ceil", "exp", "log", "sqrt", "is_nan", "is_not_nan")
STRMETH = {
    "str_len": "len", "str_upper": "upper", "str_lower": "lower", "str_strip": "strip",
    "str_starts_with": "starts_with", "str_ends_with": "ends_with", "str_contains": "contains",
    "str_replace_all": "replace_all", "str_slice": "slice",
}
DTMETH = ("year", "month", "day", "hour", "minute", "second", "day_of_week", "day_of_year")
AGGS = ("sum", "mean", "min", "max", "any", "all", "count")
MARKERS = {"desc": "descending", "asc": "ascending", "nulls_first": "nulls_first", "nulls_last": "nulls_last"}


class NotApplicable(Exception):
    """the event does not exist on this backend (e.g. collect() is documented for
    polars-backed tables only); the explorer stops this backend, no verdict"""


class StepError(Exception):
    """A real-library call raised; ``index`` is the event index in the history."""

    def __init__(self, index, exc):
        super().__init__(f"step {index}: {type(exc).__name__}: {exc}")
        self.index = index
        self.exc = exc


class Ctx:
    """Everything an expression term may refer to while a history is replayed."""

    def __init__(self, built: W.Built, pool=None):
        self.built = built
        self.sources = built.tables
        self.tables: list = []  # tables[k] = table after k events (tables[0] = source)
        self.pool = pool or []


def build_expr(t, ctx: Ctx):
    """term -> ColExpr (or python literal)."""
    if not isinstance(t, list):
        raise ValueError(f"bad term {t!r}")
    h = t[0]
    if h == "lit":
        v = W.dec(t[1])
        if len(t) > 2:
            return pdt.lit(v, DTYPES[t[2]]())
        return v
    if h == "col":
        mode = t[1]
        if mode == "src":
            return ctx.sources[t[2]][t[3]]
        if mode == "C":
            return getattr(C, t[2])
        if mode == "at":
            return ctx.tables[t[2]][t[3]]
        if mode == "str":
            return t[2]
        if mode == "right":  # a Col of the derived right table of the enclosing join
            return ctx.sub.tables[-1][t[2]]
        if mode == "rat":  # a Col of the right side's table after k events
            return ctx.sub.tables[t[2]][t[3]]
        raise ValueError(t)
    if h == "pool":
        return ctx.pool[t[1]]
    if h in BINOPS:
        a, b = build_expr(t[1], ctx), build_expr(t[2], ctx)
        if not isinstance(a, pdt.ColExpr) and not isinstance(b, pdt.ColExpr):
            a = pdt.lit(a)
        return BINOPS[h](a, b)
    if h in UNOPS:
        a = build_expr(t[1], ctx)
        if not isinstance(a, pdt.ColExpr):
            a = pdt.lit(a)
        return UNOPS[h](a)
    if h in MARKERS:
        return getattr(_expr(t[1], ctx), MARKERS[h])()
    if h in METHODS0:
        return getattr(_expr(t[1], ctx), h)()
    if h == "fill_null":
        return _expr(t[1], ctx).fill_null(build_expr(t[2], ctx))
    if h == "is_in":
        return _expr(t[1], ctx).is_in(*(build_expr(a, ctx) for a in t[2:]))
    if h == "round":
        return _expr(t[1], ctx).round(*(build_expr(a, ctx) for a in t[2:]))
    if h == "clip":
        return _expr(t[1], ctx).clip(build_expr(t[2], ctx), build_expr(t[3], ctx))
    if h == "coalesce":
        return pdt.coalesce(*(build_expr(a, ctx) for a in t[1:]))
    if h in ("hmax", "hmin", "hsum", "hany", "hall"):
        f = {"hmax": pdt.max, "hmin": pdt.min, "hsum": pdt.sum, "hany": pdt.any, "hall": pdt.all}[h]
        args = [build_expr(a, ctx) for a in t[1:]]
        if not builtins.any(isinstance(a, pdt.ColExpr) for a in args):
            args[0] = pdt.lit(args[0])
        return f(*args)
    if h in STRMETH:
        x = _expr(t[1], ctx)
        rest = t[2:]
        kw = {}
        if rest and isinstance(rest[-1], dict):
            kw, rest = rest[-1], rest[:-1]
        return getattr(x.str, STRMETH[h])(*(build_expr(a, ctx) for a in rest), **kw)
    if h.startswith("dt_") and h[3:] in DTMETH:
        return getattr(_expr(t[1], ctx).dt, h[3:])()
    if h in AGGS:
        kw = _ctx_kwargs(t[2] if len(t) > 2 else None, ctx)
        return getattr(_expr(t[1], ctx), h)(**kw)
    if h == "count_star":
        return pdt.count(**_ctx_kwargs(t[1] if len(t) > 1 else None, ctx))
    if h in ("row_number", "rank", "dense_rank"):
        return getattr(pdt, h)(**_ctx_kwargs(t[1] if len(t) > 1 else None, ctx))
    if h == "shift":
        # ["shift", x, n, fill|None, ctxkw]
        x = _expr(t[1], ctx)
        args = [t[2]]
        if len(t) > 3 and t[3] is not None:
            args.append(build_expr(t[3], ctx))
        return x.shift(*args, **_ctx_kwargs(t[4] if len(t) > 4 else None, ctx))
    if h == "cum_sum":
        return _expr(t[1], ctx).cum_sum(**_ctx_kwargs(t[2] if len(t) > 2 else None, ctx))
    if h == "case":
        # ["case", [[cond, val], ...], default|None]
        e = None
        for cond, val in t[1]:
            w = pdt.when(build_expr(cond, ctx)) if e is None else e.when(build_expr(cond, ctx))
            e = w.then(build_expr(val, ctx))
        if len(t) > 2 and t[2] is not None:
            e = e.otherwise(build_expr(t[2], ctx))
        return e
    if h == "case_ext":
        # ["case_ext", base, [[cond, val], ...], default|None]: extends the (open) case expression
        # object ``base`` - typically a pooled object - by further branches
        e = build_expr(t[1], ctx)
        for cond, val in t[2]:
            e = e.when(build_expr(cond, ctx)).then(build_expr(val, ctx))
        if len(t) > 3 and t[3] is not None:
            e = e.otherwise(build_expr(t[3], ctx))
        return e
    if h == "map":
        # ["map", x, [[key, val], ...], default|None]; key may be ["tuple", k...]
        mapping = {}
        for key, val in t[2]:
            if isinstance(key, list) and key and key[0] == "tuple":
                k = tuple(build_expr(a, ctx) for a in key[1:])
            else:
                k = build_expr(key, ctx)
            mapping[k] = build_expr(val, ctx)
        kw = {}
        if len(t) > 3 and t[3] is not None:
            d = build_expr(t[3], ctx)
            kw["default"] = pdt.lit(None) if d is None else d
        return _expr(t[1], ctx).map(mapping, **kw)
    if h == "cast":
        kw = {} if len(t) < 4 else {"strict": t[3]}
        return _expr(t[1], ctx).cast(DTYPES[t[2]](), **kw)
    raise ValueError(f"unknown expression head {h!r}")


def _expr(t, ctx):
    e = build_expr(t, ctx)
    if not isinstance(e, pdt.ColExpr):
        e = pdt.lit(e)
    return e


def _ctx_kwargs(d, ctx):
    if not d:
        return {}
    kw = {}
    if "partition_by" in d:
        kw["partition_by"] = [build_expr(c, ctx) for c in d["partition_by"]]
    if "arrange" in d:
        kw["arrange"] = [build_expr(o, ctx) for o in d["arrange"]]
    if "filter" in d:
        kw["filter"] = [build_expr(f, ctx) for f in d["filter"]]
    return kw


def build_side(side, ctx: Ctx):
    """A derived table of another source: {"src": name, "hist": [...], ["alias": bool]}"""
    sub = Ctx(ctx.built, ctx.pool)
    if "at" in side:
        # the main table after ``at`` events, aliased (shares its verb nodes with the main table)
        tbl = ctx.tables[side["at"]] >> pdt.alias(side["alias"] if isinstance(side.get("alias"), str) else None)
        sub.tables.append(tbl)
        for ev in side.get("hist", []):
            sub.tables.append(apply_event(sub.tables[-1], ev, sub))
        return sub.tables[-1], sub
    tbl = ctx.sources[side["src"]]
    if side.get("alias"):
        tbl = tbl >> pdt.alias(side["alias"] if isinstance(side["alias"], str) else None)
        # references into the aliased side go through ["col","at",0,...]
    sub.tables.append(tbl)
    for i, ev in enumerate(side.get("hist", [])):
        sub.tables.append(apply_event(sub.tables[-1], ev, sub))
    return sub.tables[-1], sub


def apply_event(tbl, ev, ctx: Ctx):
    """Apply one verb event to a real table and return the new table."""
    k = ev[0]
    if k == "select":
        return tbl >> pdt.select(*(build_expr(c, ctx) for c in ev[1]))
    if k == "drop":
        return tbl >> pdt.drop(*(build_expr(c, ctx) for c in ev[1]))
    if k == "rename":
        # [["old-colref-or-name", "new"], ...]
        m = {}
        for old, new in ev[1]:
            m[build_expr(old, ctx) if isinstance(old, list) else old] = new
        return tbl >> pdt.rename(m)
    if k == "mutate":
        return tbl >> pdt.mutate(**{n: build_expr(e, ctx) for n, e in ev[1]})
    if k == "filter":
        return tbl >> pdt.filter(*(build_expr(e, ctx) for e in ev[1]))
    if k == "arrange":
        return tbl >> pdt.arrange(*(build_expr(e, ctx) for e in ev[1]))
    if k == "slice_head":
        return tbl >> pdt.slice_head(ev[1], offset=ev[2])
    if k == "group_by":
        return tbl >> pdt.group_by(*(build_expr(c, ctx) for c in ev[1]), add=bool(ev[2]) if len(ev) > 2 else False)
    if k == "ungroup":
        return tbl >> pdt.ungroup()
    if k == "summarize":
        return tbl >> pdt.summarize(**{n: build_expr(e, ctx) for n, e in ev[1]})
    if k == "join":
        # ["join", side, how, on-list | "cross", opts]
        right, sub = build_side(ev[1], ctx)
        opts = ev[4] if len(ev) > 4 else {}
        kw = {}
        if opts.get("suffix") is not None:
            kw["suffix"] = opts["suffix"]
        jctx = _JoinCtx(ctx, sub)
        if ev[2] == "cross":
            return tbl >> pdt.cross_join(right, **kw)
        on = [build_expr(o, jctx) if isinstance(o, list) else o for o in ev[3]]
        if opts.get("on_single") and len(on) == 1:
            on = on[0]
        return tbl >> pdt.join(right, on, ev[2], **kw)
    if k == "union":
        right, sub = build_side(ev[1], ctx)
        if len(ev) > 3 and ev[3] == "fn":
            return pdt.union(tbl, right, distinct=bool(ev[2]))
        return tbl >> pdt.union(right, distinct=bool(ev[2]))
    if k == "alias":
        return tbl >> pdt.alias(ev[1] if len(ev) > 1 else None, keep_col_refs=bool(ev[2]) if len(ev) > 2 else False)
    if k == "collect":
        if ctx.built.backend != "polars":
            raise NotApplicable("collect() is for polars-backed tables")
        return tbl >> pdt.collect(keep_col_refs=bool(ev[1]) if len(ev) > 1 else True)
    if k == "transfer":
        # materialise the current table as a fresh source and transfer references
        df = tbl >> pdt.export(pdt.Polars())
        # a column without any value comes back from SQL without a type; the materialised copy gets
        # the declared one (a user-defined `materialize` verb would create the table from the schema)
        for cname in df.columns:
            if df.schema[cname] == pl.Null:
                try:
                    df = df.with_columns(pl.col(cname).cast(tbl[cname].dtype().to_polars()))
                except Exception:  # noqa: BLE001
                    pass
        back = None
        if len(ev) > 1 and ev[1] == "rot" and len(df.columns) > 1:
            # ["transfer", "rot"]: the materialised table has its own history - it is stored with
            # rotated column names and gets the names back by one (permutation) rename
            names = list(df.columns)
            rot = names[1:] + names[:1]
            df = df.rename(dict(zip(names, rot)))
            back = dict(zip(rot, names))
        hidden = len(ev) > 1 and ev[1] == "hidden"
        if hidden:
            # ["transfer", "hidden"]: the materialised table carries columns of its own that it hides
            # again (an extra column, and a twin of its first column that it overwrites)
            df = df.with_columns(pl.lit(1).alias("extra__"))
        if ctx.built.backend == "polars":
            fresh = pdt.Table(df, name=tbl._ast.name)
        else:
            # materialise into a new SQL table, like a user-defined `materialize` verb would
            ctx.built.n_mat = getattr(ctx.built, "n_mat", 0) + 1
            name = f"mat{ctx.built.n_mat}"
            df.write_database(name, ctx.built.engine, if_table_exists="replace")
            fresh = pdt.Table(name, pdt.SqlAlchemy(ctx.built.engine), name=tbl._ast.name)
        if hidden:
            first = df.columns[0]
            fresh = fresh >> pdt.drop(fresh["extra__"])
            if first != "extra__":
                fresh = fresh >> pdt.mutate(**{first: fresh[first]}) >> pdt.select(*[c for c in df.columns if c != "extra__"])
        if back:
            fresh = fresh >> pdt.rename(back)
        if len(ev) > 1 and ev[1] == "sliced":
            # ["transfer", "sliced"]: the materialised table carries a slice_head (of all its rows), so a
            # later filter / summarize needs a subquery at the alias node the transfer inserts
            fresh = fresh >> pdt.slice_head(df.height + 1)
        return pdt.transfer_col_references(fresh, tbl)
    raise ValueError(f"unknown event {k!r}")


class _JoinCtx(Ctx):
    """Column references of the right side are written ["col","right",name] (a Col of
    the derived right table) or ["col","rat",k,name] (a Col of the right side after k events)."""

    def __init__(self, ctx: Ctx, sub: Ctx):
        self.built = ctx.built
        self.sources = ctx.sources
        self.tables = ctx.tables
        self.pool = ctx.pool
        self.sub = sub


def run_history(built: W.Built, history, pool=None):
    """Replay ``history`` on the source table named by its first element.

    history = [["source", "T"], ev1, ev2, ...]; returns the Ctx (ctx.tables[-1] is the
    final table).  Raises StepError(i, exc) if event i (1-based) raises.
    """
    ctx = Ctx(built, pool)
    assert history and history[0][0] == "source", history[:1]
    ctx.tables.append(built.tables[history[0][1]])
    with warnings.catch_warnings():
        warnings.simplefilter("ignore")
        for i, ev in enumerate(history[1:], 1):
            try:
                ctx.tables.append(apply_event(ctx.tables[-1], ev, ctx))
            except Exception as e:  # noqa: BLE001
                raise StepError(i, e) from e
    return ctx


def export_frame(tbl):
    with warnings.catch_warnings():
        warnings.simplefilter("ignore")
        return tbl >> pdt.export(pdt.Polars())
