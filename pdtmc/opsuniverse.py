"""The operator catalogue of the library (read-only use of ``_internal.ops``) and its
instantiation over the *executable* type universe (types a polars / SQLite column can
have here).  Shared by C12, C13 and C19."""

from __future__ import annotations

import datetime as dt
import itertools

import pydiverse.transform as pdt
from pydiverse.common import Bool, Date, Datetime, Float, Int, NullType, String
from pydiverse.transform._internal.ops import ops as _ops
from pydiverse.transform._internal.ops.op import Ftype, Operator
from pydiverse.transform._internal.ops.ops.markers import Marker
from pydiverse.transform._internal.tree import types as _types
from pydiverse.transform._internal.tree.col_expr import ColFn

INT_T = ["int8", "int16", "int32", "int64", "uint8", "uint16", "uint32", "uint64"]
FLOAT_T = ["float32", "float64"]
OTHER_T = ["bool", "str", "date", "datetime"]
ALL_T = INT_T + FLOAT_T + OTHER_T

VALUES = {
    **{t: [1, 2, None] for t in INT_T},
    **{t: [1.5, 0.5, None] for t in FLOAT_T},
    "bool": [True, False, None],
    "str": ["2020-01-02", "1999-12-31", None],
    "date": ["d:2020-01-02", "d:1999-12-31", None],
    "datetime": ["t:2020-01-02T03:04:05", "t:1999-12-31T23:59:59", None],
}
LITERALS = {
    **{t: 1 for t in INT_T}, **{t: 0.5 for t in FLOAT_T}, "bool": True, "str": "a",
    "date": dt.date(2020, 1, 2), "datetime": dt.datetime(2020, 1, 2, 3, 4, 5),
}
SKIP_OPS = {"rand", "list_agg", "str_join"}  # excluded from all alphabets (DESIGN 4.9)


def operators():
    out = []
    for n in sorted(dir(_ops)):
        o = getattr(_ops, n)
        if isinstance(o, Operator):
            out.append((n, o))
    return out


def world():
    cols = [["k", "int"]] + [[f"c_{t}", t] for t in ALL_T]
    rows = []
    for i in range(3):
        rows.append([i + 1] + [VALUES[t][i] for t in ALL_T])
    return {"tables": {"T": {"cols": cols, "rows": rows}}}


def candidates(param):
    """concrete executable column types for one declared parameter type"""
    base = _types.without_const(param)
    if isinstance(base, _types.Tyvar):
        return ["int64", "float64", "bool", "str", "date", "datetime", "int8", "uint32", "float32"]
    if type(base) is Int:
        return ["int64"] + [t for t in INT_T if t != "int64"]
    if type(base) is Float:
        return ["float64", "float32"]
    if isinstance(base, Bool):
        return ["bool"]
    if isinstance(base, String):
        return ["str"]
    if type(base) is Date:
        return ["date"]
    if type(base) is Datetime:
        return ["datetime"]
    if base.is_int():
        return [repr(base).lower()] if repr(base).lower() in INT_T else None
    if base.is_float():
        return [repr(base).lower()] if repr(base).lower() in FLOAT_T else None
    return None  # Decimal, Time, Duration, Enum, List: not executable here


MIXED_TYVAR = [("int64", "float64"), ("float64", "int64"), ("int8", "int64"), ("int64", "uint8"), ("int32", "float32"), ("float32", "float64")]


def instantiations(op: Operator, max_varargs=3, implicit=False):
    """-> list of (signature index, [(kind, typename)]), kind in {'col','lit'};
    every declared parameter is varied over its candidates while the others stay at their
    first (canonical) candidate; all occurrences of the type variable S move together.

    implicit=True adds the instantiations that rely on an implicit conversion: an integer
    argument for every Float parameter, and - for signatures with two or more occurrences
    of the type variable - one occurrence of a different (convertible) type than the
    others."""
    out = []
    seen = set()
    for si, sig in enumerate(op.signatures):
        variants = [list(sig.types)]
        if sig.is_vararg:
            variants = [list(sig.types) + [sig.types[-1]] * k for k in range(0, max_varargs - len(sig.types) + 1)]
        for params in variants:
            cands = [candidates(p) for p in params]
            if any(c is None for c in cands):
                continue
            kinds = ["lit" if _types.is_const(p) else "col" for p in params]
            tyvar = [isinstance(_types.without_const(p), _types.Tyvar) for p in params]
            base = [c[0] for c in cands]
            combos = [list(base)]
            for i, c in enumerate(cands):
                for alt in c[1:]:
                    v = list(base)
                    if tyvar[i]:
                        v = [alt if tv else b for tv, b in zip(tyvar, v)]
                    else:
                        v[i] = alt
                    combos.append(v)
            if implicit:
                fpos = [i for i, p in enumerate(params) if type(_types.without_const(p)) is Float]
                for i in fpos:
                    for alt in ("int64", "int8", "uint16"):
                        v = list(base)
                        v[i] = alt
                        combos.append(v)
                # two or more (but not all) Float parameters given integers at once
                if 2 < len(fpos) <= 4:
                    for r in range(2, len(fpos)):
                        for sub in itertools.combinations(fpos, r):
                            combos.append(["int64" if i in sub else b for i, b in enumerate(base)])
                tv_pos = [i for i, tv in enumerate(tyvar) if tv]
                if len(tv_pos) >= 2:
                    for i in tv_pos:
                        for one, rest in MIXED_TYVAR:
                            combos.append([(one if j == i else rest) if tyvar[j] else b for j, b in enumerate(base)])
            for v in combos:
                key = (tuple(kinds), tuple(v))
                if key in seen:
                    continue
                seen.add(key)
                out.append((si, list(zip(kinds, v))))
    return out


def const_variants(op: Operator):
    """instantiations of ``op`` in which one constant parameter is not given as a Python
    literal but as a constant column ('ccol': a column created by ``mutate(cc_<t>=<literal>)``,
    its type is const) or as a constant expression ('cexpr': an operator applied to
    literals).  Both are accepted by the type checker wherever a literal is."""
    out, seen = [], set()
    for si, args in instantiations(op):
        for i, (kind, t) in enumerate(args):
            if kind != "lit":
                continue
            for alt in ("ccol", "cexpr"):
                if alt == "cexpr" and cexpr(t) is None:
                    continue
                v = list(args)
                v[i] = (alt, t)
                key = tuple(v)
                if key not in seen:
                    seen.add(key)
                    out.append((si, v))
    return out


def cexpr(t):
    if t in INT_T:
        return pdt.lit(LITERALS[t]) + 0
    if t in FLOAT_T:
        return pdt.lit(LITERALS[t]) * 1.0
    if t == "str":
        return pdt.lit(LITERALS[t]) + ""
    if t == "bool":
        return pdt.lit(True) & True
    return None


def const_table(tbl):
    """``tbl`` with one constant column cc_<t> per type"""
    return tbl >> pdt.mutate(**{f"cc_{t}": LITERALS[t] for t in ALL_T})


def build(op: Operator, args, tbl, *, ftype_ctx=True):
    """real ColFn for ``op`` with the given argument specs on table ``tbl``"""
    real = []
    for kind, t in args:
        if kind == "col":
            real.append(tbl[f"c_{t}"])
        elif kind == "ccol":
            real.append(tbl[f"cc_{t}"])
        elif kind == "cexpr":
            real.append(cexpr(t))
        else:
            v = LITERALS[t]
            real.append(v)
    kw = {}
    if any(c.name == "arrange" and c.required for c in op.context_kwargs) or op.name in ("shift", "row_number"):
        kw["arrange"] = [tbl.k]
    return ColFn(op, *real, **kw)


def is_marker(op):
    return isinstance(op, Marker)


def describe_args(args):
    return ", ".join(f"{k}:{t}" for k, t in args)
