"""C15 - equivalent pipelines give identical results.

Nine documented equivalences, each a pair of program templates (lhs, rhs), instantiated
with every prefix history over a small alphabet, every expression of a menu and every
input table of the family; metamorphic oracle: both sides export the same frame on each
backend (no reference values).  A permitted SQL refusal of one side only is not a
violation."""

from __future__ import annotations

import itertools
import warnings
from collections import Counter

import pydiverse.transform as pdt

from .. import compare as C
from .. import explore as X
from .. import impl as I
from .. import minimise as MIN
from .. import refmodel as M
from .. import terms as T
from . import base
from .common import Cn, lit, rows_upto

PROPERTY = "C15"
COLS = [["k", "int"], ["g", "int"], ["x", "int"], ["s", "str"]]
R_COLS = [["rk", "int"], ["w", "int"]]
R_ROWS = [[1, 10], [1, 11], [2, None], [None, 7]]
ADV = [
    [[1, 1, 2, "a"], [2, 1, None, "b"], [3, 2, 1, "a"], [4, None, 2, None]],
    [[1, 2, 1, "b"], [2, 2, 1, "b"], [3, 1, 2, None]],
]


def src(t, n):
    return ["col", "src", t, n]


k, g, x, s = (src("T", n) for n in "kgxs")


def mk_world(rows, urows=None):
    return {"tables": {"T": {"cols": COLS, "rows": rows}, "R": {"cols": R_COLS, "rows": R_ROWS},
                       "U": {"cols": COLS, "rows": urows if urows is not None else [[9, 1, 2, "a"], [1, 1, 2, "a"]]}}}


def worlds(tier):
    """-> list of (world, prefix depth)"""
    out = []
    small = rows_upto([[None, 1, 2], [None, 1, 2]], 1 if tier == "quick" else 2, with_id=True)
    for rows in small:
        rows = [[r[0], r[1], r[2], None if r[1] is None else "ab"[r[1] - 1]] for r in rows]
        out.append((mk_world(rows), 1 if tier == "quick" else (2 if len(rows) <= 1 else 1)))
    for rows in ADV:
        out.append((mk_world(rows), 1 if tier == "quick" else 2))
    return out


PREFIX = [
    ["filter", [["ge", k, lit(1)]]],
    ["mutate", [["y", ["add", x, lit(1)]]]],
    ["mutate", [["x", ["mul", x, lit(2)]]]],  # overwrite: T.x hidden, C.x new
    ["arrange", [k]],
    ["arrange", [["desc", k]]],
    ["select", [k, g, x]],
    ["rename", [["s", "t"]]],
    ["group_by", [g]],
    ["alias", None, True],
    ["filter", [["is_not_null", g]]],
    ["union", {"src": "U"}, True],  # the table is itself a distinct union (then e.g. union-swap with distinct=False)
]

E = {
    "e1": ["add", x, lit(1)],
    "e2": ["mul", x, g],
    "e3": ["is_null", x],
    "e4": ["case", [[["gt", x, lit(1)], lit("hi")]], s],
    "e5": ["sum", x],
    "e6": ["row_number", {"arrange": [k]}],
}
PREDS = [["gt", x, lit(1)], ["eq", g, lit(1)], ["is_null", x], ["lt", k, lit(3)], ["is_in", g, lit(1), lit(2)]]


def window_pairs():
    """(lhs events, rhs events) for the grouped-arrange-window equivalence"""
    out = []
    orders = [[k], [["desc", k]], [["nulls_last", x], k],
              [["desc", ["nulls_last", x]], k], [["desc", ["nulls_first", x]], ["desc", k]], [["nulls_first", x], k]]
    for o in orders:
        fns = {
            "row_number": (["row_number"], lambda ck: ["row_number", ck]),
            "shift": (["shift", x, 1, None], lambda ck: ["shift", x, 1, None, ck]),
            "shift-1": (["shift", x, -1, lit(0)], lambda ck: ["shift", x, -1, lit(0), ck]),
            "sum": (["sum", x], lambda ck: ["sum", x, {"partition_by": ck["partition_by"]}]),
            # the window function nested inside a larger expression
            "shift-diff": (["sub", x, ["shift", x, 1, None]], lambda ck: ["sub", x, ["shift", x, 1, None, ck]]),
            "row_number*10": (["mul", ["row_number"], lit(10)], lambda ck: ["mul", ["row_number", ck], lit(10)]),
            "fill(shift)": (["fill_null", ["shift", x, -1, None], lit(0)], lambda ck: ["fill_null", ["shift", x, -1, None, ck], lit(0)]),
            "count": (["count_star"], lambda ck: ["count_star", {"partition_by": ck["partition_by"]}]),
        }
        for name, (bare, with_ck) in fns.items():
            lhs = [["group_by", [g]], ["arrange", o], ["mutate", [["w", bare]]], ["ungroup"]]
            rhs = [["arrange", o], ["mutate", [["w", with_ck({"partition_by": [g], "arrange": o})]]]]
            out.append((f"window:{name}", lhs, rhs))
        # arrange= is mandatory for these: only the partition comes from the enclosing group_by
        for name in ("rank", "dense_rank"):
            lhs = [["group_by", [g]], ["arrange", o], ["mutate", [["w", [name, {"arrange": o}]]]], ["ungroup"]]
            rhs = [["arrange", o], ["mutate", [["w", [name, {"partition_by": [g], "arrange": o}]]]]]
            out.append((f"window:{name}", lhs, rhs))
        lhs = [["group_by", [g]], ["arrange", o], ["mutate", [["w", ["cum_sum", x, {"arrange": o}]]]], ["ungroup"]]
        rhs = [["arrange", o], ["mutate", [["w", ["cum_sum", x, {"partition_by": [g], "arrange": o}]]]]]
        out.append(("window:cum_sum", lhs, rhs))
    return out


def instances(tier):
    """-> list of (label, lhs events, rhs events, names_as_set)"""
    out = []
    # (1) several independent arguments vs one call per argument
    names = list(E)
    for a, b in itertools.permutations(names, 2):
        if {a, b} & {"e5", "e6"} and a > b:
            continue
        out.append((f"mutate-split:{a},{b}", [["mutate", [["p", E[a]], ["q", E[b]]]]],
                    [["mutate", [["p", E[a]]]], ["mutate", [["q", E[b]]]]], False))
    for p, q in itertools.permutations(range(len(PREDS)), 2):
        out.append((f"filter-split:{p},{q}", [["filter", [PREDS[p], PREDS[q]]]], [["filter", [PREDS[p]]], ["filter", [PREDS[q]]]], False))
    # (2) grouped + arranged window vs explicit partition_by / arrange
    for label, lhs, rhs in window_pairs():
        out.append((label, lhs, rhs, False))
    # (3) drop vs select of the complement (by current visible names; resolved per state)
    out.append(("drop-select", "DROP", "SELECT", False))
    # (4) rename and its inverse
    out.append(("rename-inverse:x", [["rename", [["x", "zz"]]], ["rename", [["zz", "x"]]]], [], False))
    out.append(("rename-inverse:swap", [["rename", [["k", "g"], ["g", "k"]]], ["rename", [["k", "g"], ["g", "k"]]]], [], False))
    # (5) chained slice_head vs the combined slice (after a total order)
    vals = [0, 1, 2, 3, 5]
    for n1, o1, n2, o2 in itertools.product(vals, repeat=4):
        if tier == "quick" and (n1 == 5 or n2 == 5 or o1 == 5 or o2 == 5):
            continue
        n = max(0, min(n2, n1 - o2))
        out.append((f"slice:{n1},{o1},{n2},{o2}", [["arrange", [k]], ["slice_head", n1, o1], ["slice_head", n2, o2]],
                    [["arrange", [k]], ["slice_head", n, o1 + o2]], False))
    # (6) inner join vs cross join + filter
    rk, rw = src("R", "rk"), src("R", "w")
    for name, on in (("eq", ["eq", k, rk]), ("lt", ["lt", k, rk]), ("and", ["and", ["eq", k, rk], ["gt", rw, lit(10)]]), ("expr", ["eq", ["add", k, lit(1)], rk])):
        out.append((f"join-cross-filter:{name}", [["join", {"src": "R"}, "inner", [on]]],
                    [["join", {"src": "R"}, "cross", []], ["filter", [on]]], False))
    # (7) map vs the when/then chain
    def chain(keys_vals, default):
        return ["case", [[["is_in", x, *ks], v] for ks, v in keys_vals], default]
    out.append(("map:plain", [["mutate", [["m", ["map", x, [[lit(1), lit(10)], [lit(2), lit(20)]], None]]]]],
                [["mutate", [["m", chain([([lit(1)], lit(10)), ([lit(2)], lit(20))], x)]]]], False))
    out.append(("map:default", [["mutate", [["m", ["map", x, [[lit(1), lit(10)]], lit(0)]]]]],
                [["mutate", [["m", chain([([lit(1)], lit(10))], lit(0))]]]], False))
    out.append(("map:null-default", [["mutate", [["m", ["map", x, [[lit(2), lit(10)]], lit(None)]]]]],
                [["mutate", [["m", chain([([lit(2)], lit(10))], lit(None))]]]], False))
    out.append(("map:tuple", [["mutate", [["m", ["map", x, [[["tuple", lit(1), lit(2)], lit(5)], [lit(4), g]], lit(-1)]]]]],
                [["mutate", [["m", chain([([lit(1), lit(2)], lit(5)), ([lit(4)], g)], lit(-1))]]]], False))
    out.append(("map:str", [["mutate", [["m", ["map", s, [[lit("a"), lit("A")]], None]]]]],
                [["mutate", [["m", ["case", [[["is_in", s, lit("a")], lit("A")]], s]]]]], False))
    # (8) is_in vs the chain of equalities (incl. null arguments)
    for a, b in ((1, 2), (1, None), (None, None), (2, 2)):
        out.append((f"is_in:{a},{b}", [["mutate", [["m", ["is_in", x, lit(a), lit(b)]]]]],
                    [["mutate", [["m", ["or", ["eq", x, lit(a)], ["eq", x, lit(b)]]]]]], False))
        out.append((f"is_in-filter:{a},{b}", [["filter", [["is_in", x, lit(a), lit(b)]]]],
                    [["filter", [["or", ["eq", x, lit(a)], ["eq", x, lit(b)]]]]], False))
    out.append(("is_in:col", [["mutate", [["m", ["is_in", x, g, lit(2)]]]]], [["mutate", [["m", ["or", ["eq", x, g], ["eq", x, lit(2)]]]]]], False))
    # (9) union with swapped operands, up to column order
    for distinct in (False, True):
        out.append((f"union-swap:{distinct}", "UNION", distinct, True))
    return out


# ---------------------------------------------------------------------------------------

def run_side(ex, hist, mstates, ctxs, events):
    """-> (model final state | 'disabled' | Reject, {backend: (names, rows) | 'refused' | exc label})"""
    ms = list(mstates)
    try:
        for ev in events:
            ms.append(ex.model.step(ms, ev))
        mfinal = ms[-1]
    except M.Disabled:
        return "disabled", {}
    except M.Reject as r:
        mfinal = r
    out = {}
    with warnings.catch_warnings():
        warnings.simplefilter("ignore")
        for b in ex.backends:
            ctx = ctxs.get(b)
            if ctx is None:
                continue
            n0 = len(ctx.tables)
            try:
                for ev in events:
                    ctx.tables.append(I.apply_event(ctx.tables[-1], ev, ctx))
                df = ctx.tables[-1] >> pdt.export(pdt.Polars())
                out[b] = (list(df.columns), C.frame_rows(df))
            except Exception as e:  # noqa: BLE001
                if b != "polars" and any(X.exc_is(e, n) for n in X.PERMITTED_SQL_REFUSALS):
                    out[b] = "refused"
                else:
                    out[b] = "exc:" + X.exc_label(e)
            finally:
                del ctx.tables[n0:]
            ex.stats["transitions"] += len(events)
    return mfinal, out


def union_sides(hist, distinct):
    """lhs: current >> union(U); rhs: U >> union(<current derivation>)  (same prefix on the other side)"""
    lhs = [["union", {"src": "U"}, distinct]]
    return lhs


def check_instance(ex, hist, mstates, ctxs, inst, stats, vs, world):
    label, lhs, rhs, as_set = inst
    st = mstates[-1]
    if lhs == "DROP":
        names = st.names()
        if len(names) < 2:
            return
        for i in range(len(names)):
            l_ev = [["drop", [Cn(names[i])]]]
            r_ev = [["select", [Cn(n) for j, n in enumerate(names) if j != i]]]
            compare(ex, hist, mstates, ctxs, f"{label}:{i}", l_ev, r_ev, as_set, stats, vs, world)
        return
    if lhs == "UNION":
        # the prefix must be replayable on U as well (same schema); swap the operands
        distinct = rhs
        l_ev = [["union", {"src": "U"}, distinct]]
        prefix = hist[1:]
        if any(e[0] in ("group_by", "alias", "arrange") for e in prefix):
            return
        # rhs: start from U and union with T >> prefix; expressed as a history on source U
        compare_histories(ex, label, hist + l_ev, [["source", "U"], ["union", {"src": "T", "hist": prefix}, distinct]], as_set, stats, vs, world)
        return
    compare(ex, hist, mstates, ctxs, label, lhs, rhs, as_set, stats, vs, world)


def compare(ex, hist, mstates, ctxs, label, l_ev, r_ev, as_set, stats, vs, world):
    ml, ol = run_side(ex, hist, mstates, ctxs, l_ev)
    if ml == "disabled":
        stats["disabled_by_domain"] += 1
        return
    mr, orr = run_side(ex, hist, mstates, ctxs, r_ev)
    if mr == "disabled":
        stats["disabled_by_domain"] += 1
        return
    judge(ex, label, hist + l_ev, hist + r_ev, ml, mr, ol, orr, as_set, stats, vs, world)


def compare_histories(ex, label, h1, h2, as_set, stats, vs, world):
    res = []
    for h in (h1, h2):
        try:
            ms = ex.model.run(h)
            mfinal = ms[-1]
        except M.Disabled:
            stats["disabled_by_domain"] += 1
            return
        except M.Reject as r:
            mfinal = r
        out = {}
        with warnings.catch_warnings():
            warnings.simplefilter("ignore")
            for b in ex.backends:
                try:
                    ctx = I.run_history(ex.built[b], h)
                    df = ctx.tables[-1] >> pdt.export(pdt.Polars())
                    out[b] = (list(df.columns), C.frame_rows(df))
                except Exception as e:  # noqa: BLE001
                    e = e.exc if isinstance(e, I.StepError) else e
                    if b != "polars" and any(X.exc_is(e, n) for n in X.PERMITTED_SQL_REFUSALS):
                        out[b] = "refused"
                    else:
                        out[b] = "exc:" + X.exc_label(e)
                ex.stats["transitions"] += len(h) - 1
        res.append((mfinal, out))
    judge(ex, label, h1, h2, res[0][0], res[1][0], res[0][1], res[1][1], as_set, stats, vs, world)


def judge(ex, label, h1, h2, ml, mr, ol, orr, as_set, stats, vs, world):
    stats["states"] += 1
    stats["traces_validated"] += 1
    fam = label.split(":")[0]
    for b in ex.backends:
        a, c = ol.get(b), orr.get(b)
        if a is None or c is None:
            continue
        if a == "refused" or c == "refused":
            stats[f"refused_one_side:{b}"] += 1
            continue
        if isinstance(a, str) or isinstance(c, str):
            if isinstance(a, str) and isinstance(c, str) and a == c:
                stats["both_rejected_same"] += 1
                continue
            vs.append(mkv(fam, label, b, "outcome:" + (a if isinstance(a, str) else "ok") + "/" + (c if isinstance(c, str) else "ok"), h1, h2, {}, world))
            continue
        ordered = False
        if not isinstance(ml, M.Reject) and not isinstance(mr, M.Reject):
            ordered = ex.model.seq_comparable(ml, b) and ex.model.seq_comparable(mr, b)
        sym = C.diff_frames(a[0], a[1], c[0], c[1], ordered=ordered, names_as_set=as_set)
        stats["comparisons"] += 1
        if sym:
            vs.append(mkv(fam, label, b, sym, h1, h2, {"lhs": {"names": a[0], "rows": C.rows_json(a[1])}, "rhs": {"names": c[0], "rows": C.rows_json(c[1])}}, world))


def mkv(fam, label, backend, symptom, h1, h2, detail, world):
    return {"invariant": f"equivalence:{fam}", "backend": backend, "symptom": symptom, "world": world, "history": h1,
            "detail": dict(detail, rhs_history=T.py_history(h2), label=label), "params": {"label": label, "rhs": h2},
            "py": T.py_history(h1) + "   ==?==   " + T.py_history(h2), "count": 1,
            "class": f"equivalence:{label if fam in ('window', 'map', 'union-swap', 'join-cross-filter', 'rename-inverse') else fam}|{backend}|{symptom}"}


def prefix_kinds(h1, h2):
    n = 0
    while n < min(len(h1), len(h2)) and h1[n] == h2[n]:
        n += 1
    return T.kinds(h1[:n])


def make_explorer(world):
    # the documented equivalence (docs/source/examples/window_functions.md) makes the order set by the
    # arrange verb the order of window functions without arrange= (DESIGN 4.6, deliberate exception)
    return X.Explorer(world, alphabet=lambda st, hist: PREFIX, checks=[], depth=2, oracle="none", names="list",
                      model_kw={"implicit_window_order": True})


def explore_world(world, depth, tier, stats, vs):
    ex = make_explorer(world)
    insts = instances(tier)
    try:
        def rec(hist, d):
            try:
                mstates, ctxs = ex.replay_prefix(hist)
            except Exception:  # noqa: BLE001
                return
            for inst in insts:
                check_instance(ex, hist, mstates, ctxs, inst, stats, vs, world)
            if d >= depth:
                return
            for ev in PREFIX:
                try:
                    ex.model.step(mstates, ev)
                except (M.Disabled, M.Reject):
                    continue
                # the prefix itself must be accepted by every backend
                try:
                    ex.replay_prefix(hist + [ev])
                except Exception:  # noqa: BLE001
                    continue
                rec(hist + [ev], d + 1)
        rec([["source", "T"]], 0)
        for kk, vv in ex.stats.items():
            stats[kk] += vv
    finally:
        ex.close()


def tasks(tier):
    return [{"world": i} for i in range(len(worlds(tier)))]


def run_task(task, tier):
    w, d = worlds(tier)[task["world"]]
    stats = Counter()
    vs = []
    explore_world(w, d, tier, stats, vs)
    merged: dict = {}
    for v in vs:
        if v["class"] in merged:
            merged[v["class"]]["count"] += 1
        else:
            merged[v["class"]] = v
    samples = []
    if task["world"] == len(worlds(tier)) - 1:
        samples = [{"equivalence": i[0], "lhs": [T.py_event(e) for e in i[1]] if isinstance(i[1], list) else i[1],
                    "rhs": [T.py_event(e) for e in i[2]] if isinstance(i[2], list) else str(i[2])} for i in instances(tier)[::60]][:5]
    return {"stats": dict(stats), "outcomes": {k2: v2 for k2, v2 in stats.items() if k2.startswith(("refused", "both", "comparisons", "disabled"))},
            "levels": {}, "violations": list(merged.values()), "samples": samples}


def recheck(rec):
    ex = make_explorer(rec["world"])
    stats, vs = Counter(), []
    try:
        compare_histories(ex, rec["params"]["label"], rec["history"], rec["params"]["rhs"], rec["params"]["label"].startswith("union-swap"), stats, vs, rec["world"])
    finally:
        ex.close()
    return vs


def describe(tier):
    insts = instances(tier)
    fam = Counter(i[0].split(":")[0] for i in insts)
    return {
        "equivalences": dict(fam),
        "instances": len(insts),
        "prefix_alphabet": [T.py_event(e) for e in PREFIX],
        "prefix_depth": "<= 1" if tier == "quick" else "<= 2 on inputs of <= 1 row and on the adversarial tables, <= 1 on the 2-row inputs",
        "input_family": ("every table with <= 1 row" if tier == "quick" else "every table with <= 2 rows") + " over g,x in {null,1,2} (s derived from g) plus 2 adversarial tables; R with duplicate and null keys; U overlapping T",
        "n_worlds": len(worlds(tier)),
        "backends": ["polars", "sqlite"],
        "oracle": "metamorphic: lhs and rhs export the same frame on each backend (sequence when both final orders are determined, else multiset; union-swap up to column order); both rejected with the same class counts as equal; a permitted SQL refusal of one side is skipped",
        "regime": "exhaustive over prefixes x instances x inputs",
        "assumptions": ["reference model only for enabledness (documented domain) and order-totality", "engines trusted"],
    }
