"""C19 - every accepted pipeline compiles on every SQL dialect.

(hist) all histories of the full alphabet accepted on SQLite up to the depth bound are
       compiled with build_query on SQLite, PostgreSQL and SQL Server (stub DBAPI modules;
       nothing is executed on the latter two): the result is one SELECT statement or
       NotSupportedError / SubqueryError, never an internal error, and the same text on a
       second call and in other interpreter processes with different hash seeds;
(ops)  every operator x every declared signature over the executable type universe on
       polars (export), SQLite (export), PostgreSQL and SQL Server (compile): an
       implementation or NotSupportedError."""

from __future__ import annotations

import hashlib
import json
import warnings
from collections import Counter

import pydiverse.transform as pdt
from pydiverse.transform._internal.ops.op import Ftype

from .. import compare as C
from .. import dialects as D
from .. import explore as X
from .. import impl as I
from .. import opsuniverse as U
from .. import refmodel as M
from .. import terms as T
from .. import world as W
from . import base
from .common import F_ADV, full_alphabet, full_world

PROPERTY = "C19"
DEPTH = {"quick": 3, "thorough": 4}
DIALECTS = ("postgres", "mssql")
HASHSEEDS = [21, 22]
DIGEST_DEPTH = 2


class DialectExplorer(X.Explorer):
    """Explorer whose SQLite twin is executed (it defines 'accepted') and whose
    PostgreSQL / SQL Server twins are only compiled."""

    def __init__(self, world, depth):
        super().__init__(world, alphabet=lambda st, hist: full_alphabet(), checks=[self.check_queries], depth=depth,
                         backends=("sqlite",), oracle="none", names="list")
        self.dbuilt = {d: D.build(world, d) for d in DIALECTS}
        self.digests = {}

    def compile_all(self, hist):
        """-> {dialect: query text | 'refused:<cls>' | 'exc:<cls>'} for an accepted history"""
        out = {}
        with warnings.catch_warnings():
            warnings.simplefilter("ignore")
            for d in DIALECTS:
                try:
                    ctx = I.run_history(self.dbuilt[d], hist)
                    q1 = ctx.tables[-1] >> pdt.build_query()
                    q2 = ctx.tables[-1] >> pdt.build_query()
                    out[d] = (q1, q2)
                except Exception as e:  # noqa: BLE001
                    e = e.exc if isinstance(e, I.StepError) else e
                    if any(X.exc_is(e, n) for n in X.PERMITTED_SQL_REFUSALS):
                        out[d] = f"refused:{type(e).__name__}"
                    else:
                        out[d] = f"exc:{X.exc_label(e)}:{str(e)[:200]}"
        return out

    def check_queries(self, step):
        vs = []
        o = step.obs.get("sqlite")
        if o is None or o.status != "ok" or isinstance(step.mres, M.Reject):
            return vs
        texts = {}
        try:
            with warnings.catch_warnings():
                warnings.simplefilter("ignore")
                q1 = o.table >> pdt.build_query()
                q2 = o.table >> pdt.build_query()
            texts["sqlite"] = (q1, q2)
        except Exception as e:  # noqa: BLE001
            texts["sqlite"] = f"exc:{X.exc_label(e)}:{str(e)[:200]}"
        texts.update(self.compile_all(step.hist))
        for d, t in texts.items():
            self.stats["compilations"] += 1
            if isinstance(t, str):
                if t.startswith("refused:"):
                    self.stats[f"{d}:{t}"] += 1
                    continue
                vs.append(X.violation(step, "compiles-or-refuses", d, "exception:" + t.split(":")[1], {"message": t[:300]}))
                continue
            q1, q2 = t
            if not isinstance(q1, str):
                vs.append(X.violation(step, "query-is-text", d, type(q1).__name__, {}))
                continue
            if q1 != q2:
                vs.append(X.violation(step, "same-text-every-time", d, "second-call-differs", {"first": q1[:300], "second": q2[:300]}))
            prob = D.top_level_problem(q1, d)
            if prob:
                vs.append(X.violation(step, "one-select-statement", d, prob.replace(" ", "-"), {"query": q1[:600]}))
            self.stats[f"{d}:compiled"] += 1
            if len(step.hist) - 1 <= DIGEST_DEPTH:
                self.digests[d + "|" + json.dumps(step.hist[1:])] = hashlib.sha1(q1.encode()).hexdigest()[:12]
        return vs

    def close(self):
        super().close()


def make_explorer(world, depth=3):
    return DialectExplorer(world, depth)


# ---------------------------------------------------------------------------------------
# (ops)

def op_programs():
    progs = []
    for name, op in U.operators():
        if name in U.SKIP_OPS or U.is_marker(op):
            continue
        for si, args in U.instantiations(op):
            if name == "neg" and args[0][1].startswith("uint"):
                continue  # the negation of an unsigned value overflows (DESIGN 4.2)
            progs.append((name, si, args))
    return progs


def const_programs():
    """constant parameters given as a constant column / constant expression instead of a literal"""
    progs = []
    for name, op in U.operators():
        if name in U.SKIP_OPS or U.is_marker(op):
            continue
        for si, args in U.const_variants(op):
            progs.append((name, si, args))
    return progs


def run_ops(rng, stats, vs, const=False, reverse=False, digests=None):
    """``reverse``: the backends are visited in the opposite order (the text compiled for one
    dialect must not depend on which dialect compiled the operator first in this process);
    ``digests`` collects a hash of every compiled text"""
    from pydiverse.transform._internal.ops import ops as _ops

    w = U.world()
    built = {"polars": W.build(w, "polars"), "sqlite": W.build(w, "sqlite")}
    built.update({d: D.build(w, d) for d in DIALECTS})
    if reverse:
        built = dict(reversed(list(built.items())))
    try:
        for name, si, args in (const_programs() if const else op_programs())[rng[0]:rng[1]]:
            op = getattr(_ops, name)
            label = f"{name}({U.describe_args(args)})"
            for b, bl in built.items():
                tbl = U.const_table(bl.tables["T"]) if const else bl.tables["T"]
                try:
                    expr = U.build(op, args, tbl)
                except Exception:  # noqa: BLE001
                    stats["construction_rejected"] += 1
                    continue
                contexts = ["mutate"] + (["summarize"] if op.ftype == Ftype.AGGREGATE else [])
                for cx in contexts:
                    stats["states"] += 1
                    stats["transitions"] += 1
                    try:
                        with warnings.catch_warnings():
                            warnings.simplefilter("ignore")
                            t2 = tbl >> (pdt.mutate(y=expr) if cx == "mutate" else pdt.summarize(y=expr))
                            if b in ("polars", "sqlite"):
                                t2 >> pdt.export(pdt.Polars())
                            else:
                                q = t2 >> pdt.build_query()
                                check_compiled(q, b, f"{cx}:{label}", vs)
                            if digests is not None and b != "polars":
                                q = t2 >> pdt.build_query()
                                digests[f"{b}|ops:{cx}:{label}"] = hashlib.sha1(q.encode()).hexdigest()[:16]
                        stats[f"{b}:implemented"] += 1
                        stats["traces_validated"] += 1
                    except Exception as e:  # noqa: BLE001
                        n = type(e).__name__
                        if n in ("NotSupportedError", "SubqueryError"):
                            stats[f"{b}:{n}"] += 1
                            stats["traces_validated"] += 1
                            continue
                        vs.append(mk("implementation-or-not-supported", b, f"{cx}:{label}", f"exception:{X.exc_label(e)}", {"message": str(e)[:300]}))
    finally:
        built["polars"].close()
        built["sqlite"].close()


def run_duration(stats, vs):
    """operators over Duration columns cannot be executed here (no backend in this image stores
    durations): they are compiled on PostgreSQL and SQL Server and exported on polars"""
    import datetime as dt

    import polars as pl
    import sqlalchemy as sqa

    progs = [(f"dur.{n}", lambda t, n=n: getattr(t.du.dur, n)()) for n in ("days", "hours", "minutes", "seconds", "milliseconds", "microseconds")]
    progs += [("datetime-datetime", lambda t: t.t - t.t), ("datetime+duration", lambda t: t.t + t.du), ("duration+duration", lambda t: t.du + t.du),
              ("duration==duration", lambda t: t.du == t.du), ("max(duration)", lambda t: t.du.max()), ("min-horizontal", lambda t: pdt.min(t.du, t.du))]
    tables = {}
    for d in DIALECTS:
        tables[d] = pdt.Table(sqa.Table("T", sqa.MetaData(), sqa.Column("k", sqa.BigInteger), sqa.Column("du", sqa.Interval), sqa.Column("t", sqa.DateTime)),
                              pdt.SqlAlchemy(D.engine(d)))
    tables["polars"] = pdt.Table(pl.DataFrame({"k": [1, 2], "du": [dt.timedelta(days=2, hours=3), None], "t": [dt.datetime(2020, 1, 2), None]}), name="T")
    for label, f in progs:
        for b, t in tables.items():
            stats["states"] += 1
            stats["transitions"] += 1
            try:
                with warnings.catch_warnings():
                    warnings.simplefilter("ignore")
                    t2 = t >> pdt.mutate(y=f(t))
                    if b == "polars":
                        t2 >> pdt.export(pdt.Polars())
                    else:
                        q = t2 >> pdt.build_query()
                        check_compiled(q, b, f"mutate:{label}", vs)
                stats[f"{b}:implemented"] += 1
                stats["traces_validated"] += 1
            except Exception as e:  # noqa: BLE001
                if type(e).__name__ in ("NotSupportedError", "SubqueryError"):
                    stats[f"{b}:{type(e).__name__}"] += 1
                    stats["traces_validated"] += 1
                    continue
                vs.append(mk("implementation-or-not-supported", b, f"mutate:{label}", f"exception:{X.exc_label(e)}", {"message": str(e)[:300]}))


def run_unordered_slices(stats, vs):
    """slice_head on a table without a determined order (outside the domain of the reference model,
    because the result is not determined) still has to compile on every dialect"""
    w = U.world()
    built = {"polars": W.build(w, "polars"), "sqlite": W.build(w, "sqlite")}
    built.update({d: D.build(w, d) for d in DIALECTS})
    C_ = pdt.C
    progs = [
        ("slice_head(2, offset=1)", lambda t: t >> pdt.slice_head(2, offset=1)),
        ("slice_head(2, offset=1) >> alias() >> filter", lambda t: t >> pdt.slice_head(2, offset=1) >> pdt.alias() >> pdt.filter(C_.k > 1)),
        ("slice_head(2, offset=1) >> alias() >> summarize", lambda t: t >> pdt.slice_head(2, offset=1) >> pdt.alias() >> pdt.summarize(n=pdt.count())),
        ("slice_head(3) >> slice_head(2, offset=1)", lambda t: t >> pdt.slice_head(3) >> pdt.slice_head(2, offset=1)),
        ("slice_head(2, offset=1) >> alias() >> mutate(window) >> alias() >> filter",
         lambda t: t >> pdt.slice_head(2, offset=1) >> pdt.alias() >> pdt.mutate(r=pdt.row_number(arrange=C_.k)) >> pdt.alias() >> pdt.filter(C_.r > 1)),
        ("filter >> slice_head(1, offset=2) >> alias() >> arrange", lambda t: t >> pdt.filter(t.k > 0) >> pdt.slice_head(1, offset=2) >> pdt.alias() >> pdt.arrange(C_.k)),
        # a subquery that has to rename one of two columns called k
        ("arrange(k) >> mutate(k=k*2) >> slice_head(2) >> alias() >> filter", lambda t: t >> pdt.arrange(t.k) >> pdt.mutate(k=t.k * 2) >> pdt.slice_head(2) >> pdt.alias() >> pdt.filter(C_.k > 0)),
        ("mutate(k=k+1) >> slice_head(2) >> alias(keep) >> filter(old k)", lambda t: t >> pdt.mutate(k=t.k + 1) >> pdt.slice_head(2) >> pdt.alias(keep_col_refs=True) >> pdt.filter(t.k > 0)),
    ]
    try:
        for label, f in progs:
            for b, bl in built.items():
                stats["states"] += 1
                stats["transitions"] += 1
                try:
                    with warnings.catch_warnings():
                        warnings.simplefilter("ignore")
                        t2 = f(bl.tables["T"])
                        if b in ("polars", "sqlite"):
                            t2 >> pdt.export(pdt.Polars())
                        else:
                            check_compiled(t2 >> pdt.build_query(), b, f"mutate:{label}", vs)
                        if b != "polars":
                            q1, q2 = t2 >> pdt.build_query(), f(bl.tables["T"]) >> pdt.build_query()
                            if q1 != q2:
                                vs.append(mk("same-text-every-time", b, f"unordered:{label}", "second-call-differs", {"first": q1[:300], "second": q2[:300]}))
                    stats[f"{b}:implemented"] += 1
                    stats["traces_validated"] += 1
                except Exception as e:  # noqa: BLE001
                    if type(e).__name__ in ("NotSupportedError", "SubqueryError"):
                        stats[f"{b}:{type(e).__name__}"] += 1
                        stats["traces_validated"] += 1
                        continue
                    vs.append(mk("one-select-statement", b, f"unordered:{label}", f"exception:{X.exc_label(e)}", {"message": str(e)[:300]}))
    finally:
        built["polars"].close()
        built["sqlite"].close()


def run_nonstrict(stats, vs):
    """non-strict casts (cast(..., strict=False)): values are backend-dependent (DESIGN 4.8) and are
    not compared, but every dialect has to compile them (or raise NotSupportedError)"""
    w = U.world()
    built = {"polars": W.build(w, "polars"), "sqlite": W.build(w, "sqlite")}
    built.update({d: D.build(w, d) for d in DIALECTS})
    targets = {"int32": pdt.Int32, "int64": pdt.Int64, "float64": pdt.Float64, "str": pdt.String, "date": pdt.Date, "datetime": pdt.Datetime, "int": pdt.Int}
    pairs = [("bool", "int32"), ("bool", "int64"), ("bool", "float64"), ("str", "int64"), ("str", "float64"), ("int64", "str"), ("float64", "str"),
             ("float64", "int32"), ("int64", "float64"), ("int8", "int64"), ("int64", "int"), ("int8", "int"), ("int64", "int32"), ("date", "datetime"), ("datetime", "date"), ("date", "str"), ("datetime", "str")]
    try:
        for src, tgt in pairs:
            for b, bl in built.items():
                tbl = bl.tables["T"]
                for shape in ("col", "expr", "lit"):
                    stats["states"] += 1
                    stats["transitions"] += 1
                    label = f"cast({shape}:{src} -> {tgt}, strict=False)"
                    try:
                        with warnings.catch_warnings():
                            warnings.simplefilter("ignore")
                            x = tbl[f"c_{src}"]
                            if shape == "expr":
                                x = x.fill_null(x)
                            elif shape == "lit":
                                if src not in U.LITERALS or src in ("date", "datetime"):
                                    continue
                                x = pdt.lit(U.LITERALS[src])
                            t2 = tbl >> pdt.mutate(y=x.cast(targets[tgt](), strict=False)) >> pdt.filter(pdt.C.k >= 1)
                            if b in ("polars", "sqlite"):
                                t2 >> pdt.export(pdt.Polars())
                            else:
                                check_compiled(t2 >> pdt.build_query(), b, f"mutate:{label}", vs)
                        stats[f"{b}:implemented"] += 1
                        stats["traces_validated"] += 1
                    except Exception as e:  # noqa: BLE001
                        if type(e).__name__ in ("NotSupportedError", "SubqueryError"):
                            stats[f"{b}:{type(e).__name__}"] += 1
                            stats["traces_validated"] += 1
                            continue
                        if b in ("polars", "sqlite") and src == "str" and "conversion" in str(e):
                            continue
                        vs.append(mk("implementation-or-not-supported", b, f"mutate:{label}", f"exception:{X.exc_label(e)}", {"message": str(e)[:300]}))
    finally:
        built["polars"].close()
        built["sqlite"].close()


def check_compiled(q, b, label, vs):
    import re

    prob = D.top_level_problem(q, b)
    if prob:
        vs.append(mk("one-select-statement", b, label, prob.replace(" ", "-"), {"query": q[:400]}))
    # an implementation that returns nothing compiles the new column to a bare NULL
    if re.search(r"(?:SELECT|,)\s+NULL AS \[?\"?y\b", q):
        vs.append(mk("implementation-or-not-supported", b, label, "compiles-to-NULL", {"query": q[:400]}))


def mk(invariant, backend, label, symptom, detail):
    import re

    generic = re.sub(r":(u?int\d+)", ":int", re.sub(r":float\d+", ":float", label))
    return {"invariant": invariant, "backend": backend, "symptom": symptom, "world": {"tables": {}}, "history": [["program", label]],
            "detail": detail, "class": f"{invariant}|{backend}|{generic}|{symptom}", "count": 1, "py": label,
            "params": {"part": "ops", "label": label}}


# ---------------------------------------------------------------------------------------

def worlds(tier):
    return [full_world(F_ADV[0])] if tier == "quick" else [full_world(F_ADV[0]), full_world(F_ADV[2])]


def tasks(tier):
    out = []
    n = len(full_alphabet())
    for wi in range(len(worlds(tier))):
        d = DEPTH[tier] if wi == 0 else 3
        out += [{"part": "hist", "world": wi, "first": [i], "depth": d} for i in range(n)]
    for hs in HASHSEEDS:
        out.append({"part": "hist", "world": 0, "first": None, "depth": DIGEST_DEPTH, "hashseed": hs})
    out.append({"part": "duration"})
    out.append({"part": "nonstrict"})
    out.append({"part": "unordered"})
    np_ = len(op_programs())
    for i in range(0, np_, 80):
        out.append({"part": "ops", "range": [i, min(np_, i + 80)]})
    # the same programs in other processes with the backends visited in the opposite order
    out.append({"part": "ops", "range": [0, np_], "hashseed": HASHSEEDS[0], "reverse": True})
    nc = len(const_programs())
    for i in range(0, nc, 80):
        out.append({"part": "constargs", "range": [i, min(nc, i + 80)]})
    return out


def run_task(task, tier):
    if task["part"] in ("ops", "constargs", "duration", "nonstrict", "unordered"):
        stats, vs = Counter(), []
        dig = {}
        if task["part"] in ("ops", "constargs"):
            run_ops(task["range"], stats, vs, const=task["part"] == "constargs", reverse=bool(task.get("reverse")), digests=dig)
        elif task["part"] == "nonstrict":
            run_nonstrict(stats, vs)
        elif task["part"] == "unordered":
            run_unordered_slices(stats, vs)
        else:
            run_duration(stats, vs)
        merged = {}
        for v in vs:
            if v["class"] in merged:
                merged[v["class"]]["count"] += 1
            else:
                merged[v["class"]] = v
        run = f"seed{task['hashseed']}" if "hashseed" in task else "main"
        return {"stats": dict(stats), "outcomes": {k: v for k, v in stats.items() if ":" in k}, "levels": {}, "violations": [] if task.get("reverse") else list(merged.values()),
                "samples": [], "digests": {run: dig}}
    w = worlds(tier)[task["world"]]
    holder = {}

    def mkex(ww):
        ex = make_explorer(ww, task["depth"])
        holder.setdefault("first", ex)
        return ex

    res = base.run_history_task(mkex, w, [["source", "T"]], task["first"], params={"part": "hist", "depth": task["depth"]})
    run = f"seed{task['hashseed']}" if "hashseed" in task else "main"
    res["digests"] = {run: dict(holder["first"].digests)}
    return res


def finalize(total, tier, seed):
    dig = total.get("digests", {})
    main = dig.get("main", {})
    vs = []
    n = 0
    for run, d in dig.items():
        if run == "main":
            continue
        for key, h in d.items():
            if key in main:
                n += 1
                if main[key] != h and "|ops:" in key:
                    dialect, label = key.split("|ops:", 1)
                    vs.append(mk("same-text-in-every-process", dialect, label, f"differs-in:{run}(reverse backend order)", {"main": main[key], run: h}))
                    vs[-1]["params"] = {"part": "digest", "ops_key": key, "run": run}
                elif main[key] != h:
                    dialect, hist = key.split("|", 1)
                    vs.append({"invariant": "same-text-in-every-process", "backend": dialect, "symptom": f"differs-in:{run}", "world": {"tables": {}},
                               "history": [["source", "T"]] + json.loads(hist), "detail": {"main": main[key], run: h},
                               "class": f"same-text-in-every-process|{dialect}|{'>'.join(T.kinds(json.loads(hist)))}|differs", "count": 1,
                               "py": hist, "params": {"part": "digest"}})
    total.setdefault("stats", Counter())["cross_process_query_comparisons"] += n
    return vs


def recheck(rec):
    p = rec.get("params") or {}
    if p.get("part") == "ops" and rec["py"].startswith("unordered:"):
        stats, vs = Counter(), []
        run_unordered_slices(stats, vs)
        return [v for v in vs if v["class"] == rec["class"]]
    if p.get("part") == "ops" and "strict=False" in rec["py"]:
        stats, vs = Counter(), []
        run_nonstrict(stats, vs)
        return [v for v in vs if v["class"] == rec["class"]]
    if p.get("part") == "ops" and rec["py"].split(":", 1)[-1].split("(")[0] in ("dur.days", "dur.hours", "dur.minutes", "dur.seconds", "dur.milliseconds", "dur.microseconds", "datetime-datetime", "datetime+duration", "duration+duration", "duration==duration", "max", "min-horizontal"):
        stats, vs = Counter(), []
        run_duration(stats, vs)
        return [v for v in vs if v["class"] == rec["class"]]
    if p.get("part") == "ops":
        stats, vs = Counter(), []
        const = "ccol:" in p["label"] or "cexpr:" in p["label"]
        progs = const_programs() if const else op_programs()
        for i, (name, si, args) in enumerate(progs):
            if p["label"].endswith(f"{name}({U.describe_args(args)})"):
                run_ops([i, i + 1], stats, vs, const=const)
        return [v for v in vs if v["class"] == rec["class"]]
    if p.get("part") == "digest" and p.get("ops_key"):
        # two fresh interpreter processes: backends visited in the usual and in the opposite order
        from ..engine import run_subtask

        dialect, label = p["ops_key"].split("|ops:", 1)
        progs = op_programs()
        idx = next((i for i, (name, si, args) in enumerate(progs) if label.endswith(f":{name}({U.describe_args(args)})")), None)
        if idx is None:
            return []
        a = run_subtask("C19", "quick", {"part": "ops", "range": [idx, idx + 1], "hashseed": 0})
        b = run_subtask("C19", "quick", {"part": "ops", "range": [idx, idx + 1], "hashseed": HASHSEEDS[0], "reverse": True})
        ha = (a.get("digests") or {}).get("seed0", {}).get(p["ops_key"])
        hb = (b.get("digests") or {}).get(f"seed{HASHSEEDS[0]}", {}).get(p["ops_key"])
        if ha is not None and hb is not None and ha != hb:
            v = mk("same-text-in-every-process", dialect, label, f"differs-in:{p['run']}(reverse backend order)", {"usual": ha, "reverse": hb})
            return [v]
        return []
    if p.get("part") == "digest":
        return []
    return base.recheck_history(lambda ww: make_explorer(ww, p.get("depth", 3)), rec)


def describe(tier):
    return {
        "hist": {"alphabet": "the 34-event full alphabet", "depth": DEPTH[tier], "worlds": len(worlds(tier)),
                 "dialects": ["sqlite (executed)", "postgresql+psycopg2 (stub DBAPI, compile only)", "mssql+pyodbc (stub DBAPI, compile only)"],
                 "not_covered": "duckdb and ibm_db_sa dialects do not import here",
                 "checks": ["build_query returns a str", "the text is one SELECT statement (no ';', no comment marker, balanced parentheses outside literals / quoted identifiers)",
                            "NotSupportedError / SubqueryError are the only exceptions", "same text on a second call",
                            f"same text in {len(HASHSEEDS)} other processes with different PYTHONHASHSEED (histories of depth <= {DIGEST_DEPTH})"]},
        "ops": {"programs": len(op_programs()), "backends": ["polars (export)", "sqlite (export)", "postgres (compile)", "mssql (compile)"],
                "contexts": "mutate; summarize additionally for aggregates", "invariant": "executes / compiles (not to a bare NULL), or raises NotSupportedError",
                "order_independence": "the text of every (program, dialect) is compared with the text compiled in another process that visits the backends in the opposite order",
                "constargs": f"{len(const_programs())} programs in which one constant parameter is given as a constant column or a constant expression instead of a literal",
                "duration": "12 programs over Duration / Datetime columns compiled on PostgreSQL and SQL Server and exported on polars",
                "nonstrict": "14 (source, target) pairs x 2 shapes with cast(..., strict=False) on all four backends (values not compared)"},
        "regime": "tree + exhaustive operator sweep",
        "assumptions": ["stub DBAPI modules only provide what SQLAlchemy needs to construct an engine; no statement is sent anywhere",
                        "reference model used only for enabledness"],
    }
