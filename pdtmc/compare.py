"""Comparison rules (DESIGN.md section 5)."""

from __future__ import annotations

import datetime as _dt
import math
from decimal import Decimal

import polars as pl

REL_TOL = 1e-9


def norm_cell(v):
    if isinstance(v, Decimal):
        return float(v)
    if isinstance(v, _dt.timedelta):
        return ("dur", v.total_seconds())
    return v


def frame_rows(df: pl.DataFrame) -> list[tuple]:
    return [tuple(norm_cell(v) for v in row) for row in df.rows()]


def cell_eq(a, b, *, bool_as_int=True) -> bool:
    if a is None or b is None:
        return a is None and b is None
    if isinstance(a, bool) or isinstance(b, bool):
        if isinstance(a, bool) and isinstance(b, bool):
            return a == b
        if not bool_as_int:
            return False
        if isinstance(a, (int, float)) and isinstance(b, (int, float)):
            return int(a) == b if isinstance(a, bool) else a == int(b)
        return False
    if isinstance(a, (int, float)) and isinstance(b, (int, float)):
        if isinstance(a, float) and math.isnan(a):
            return isinstance(b, float) and math.isnan(b)
        if a == b:
            return True
        if isinstance(a, int) and isinstance(b, int):
            return False  # integers are compared exactly (the tolerance is for floats)
        return abs(a - b) <= REL_TOL * max(1.0, abs(a), abs(b))
    if type(a) is not type(b):
        # date vs datetime never equal; str vs anything never equal
        return False
    return a == b


def row_eq(r1, r2, **kw) -> bool:
    return len(r1) == len(r2) and all(cell_eq(a, b, **kw) for a, b in zip(r1, r2))


def _sort_key_cell(v):
    if v is None:
        return (0, 0)
    if isinstance(v, bool):
        return (1, float(v))
    if isinstance(v, (int, float)):
        if isinstance(v, float) and math.isnan(v):
            return (1, float("inf"))
        # round so that values equal up to tolerance sort next to each other
        return (1, float(f"{float(v):.9g}"))
    if isinstance(v, str):
        return (2, v)
    if isinstance(v, _dt.datetime):
        return (4, v.isoformat())
    if isinstance(v, _dt.date):
        return (3, v.isoformat())
    return (5, repr(v))


def _sort_key_row(r):
    return tuple(_sort_key_cell(v) for v in r)


def rows_eq(rows1, rows2, *, ordered: bool, **kw) -> bool:
    if len(rows1) != len(rows2):
        return False
    if ordered:
        return all(row_eq(a, b, **kw) for a, b in zip(rows1, rows2))
    s1 = sorted(rows1, key=_sort_key_row)
    s2 = sorted(rows2, key=_sort_key_row)
    if all(row_eq(a, b, **kw) for a, b in zip(s1, s2)):
        return True
    # fall back to a quadratic matching (tolerant equality is not transitive in general)
    rest = list(rows2)
    for a in rows1:
        for i, b in enumerate(rest):
            if row_eq(a, b, **kw):
                del rest[i]
                break
        else:
            return False
    return True


def project(names, rows, want):
    idx = [names.index(n) for n in want]
    return [tuple(r[i] for i in idx) for r in rows]


def diff_frames(names1, rows1, names2, rows2, *, ordered: bool, names_as_set=False, **kw):
    """-> None if equal, else a short symptom string:
    'names' | 'column-order' | 'row-count' | 'row-order' | 'values'"""
    if names_as_set:
        if sorted(names1) != sorted(names2) or len(set(names1)) != len(names1):
            return "names"
        rows2 = project(list(names2), rows2, list(names1))
    else:
        if list(names1) != list(names2):
            if sorted(names1) == sorted(names2):
                return "column-order"
            return "names"
    if len(rows1) != len(rows2):
        return "row-count"
    if rows_eq(rows1, rows2, ordered=ordered, **kw):
        return None
    if ordered and rows_eq(rows1, rows2, ordered=False, **kw):
        return "row-order"
    return "values"


def respects_order(rows, keyfn) -> bool:
    """is the sequence sorted w.r.t. keyfn (ties in any order)?"""
    keys = [keyfn(r) for r in rows]
    return all(not (keys[i + 1] < keys[i]) for i in range(len(keys) - 1))


def jsonable(v):
    from . import world as W

    v = norm_cell(v)
    if isinstance(v, (_dt.date, _dt.datetime)):
        return W.enc(v)
    if isinstance(v, float) and (math.isnan(v) or math.isinf(v)):
        return repr(v)
    if isinstance(v, tuple):
        return [jsonable(x) for x in v]
    if isinstance(v, bytes):
        return v.decode("latin1")
    return v


def rows_json(rows):
    return [[jsonable(v) for v in r] for r in rows]
