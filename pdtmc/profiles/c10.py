"""C10 - tables and expressions are immutable values.

A genuinely stateful exploration.  The world holds a pool of *live* objects: the source
table, derived tables, and expression objects E0..E10 built once (an aggregate, a window
function, count(), an element-wise expression, a case expression, an ordering marker,
an aggregate with explicit partition_by).  Events apply a verb with pooled expressions to
a pooled table (the result joins the pool), change the grouping state, export, build the
query or print a table.  All interleavings up to the depth bound are executed, each in
its own fresh world; inside one interleaving the objects are shared between the events.

Invariants after the last event of every interleaving:
 (1) the structural fingerprint of every object that existed before the event is
     unchanged; the source frame / the SQLite database content is unchanged;
 (2) every pooled table exports the same frame as the same derivation rebuilt in a
     fresh world with fresh expression objects, and every verb call has the same outcome
     (accepted / exception class) as there;
 (3) export and build_query are repeatable."""

from __future__ import annotations

import json
import warnings
from collections import Counter

import pydiverse.transform as pdt

from .. import compare as C
from .. import explore as X
from .. import impl as I
from .. import terms as T
from .. import world as W
from ..fingerprint import fingerprint

PROPERTY = "C10"
DEPTH = {"quick": 3, "thorough": 4}

WORLD = {"tables": {"T": {"cols": [["k", "int"], ["g", "int"], ["x", "int"]],
                          "rows": [[1, 1, 5], [2, 1, None], [3, 2, 2], [4, 2, 7], [5, None, 1]]},
                    "R": {"cols": [["k", "int"], ["w", "int"]], "rows": [[1, 10], [1, 11], [3, None], [6, 1]]},
                    "U": {"cols": [["k", "int"], ["g", "int"], ["x", "int"]], "rows": [[7, 1, 5], [1, 1, 5]]}}}


def src(n):
    return ["col", "src", "T", n]


EXPRS = [
    ["sum", src("x")],  # E0 aggregate
    ["shift", src("x"), 1, None, {"arrange": [src("k")]}],  # E1 window
    ["count_star"],  # E2
    ["add", src("x"), ["lit", 1]],  # E3 element-wise
    ["case", [[["gt", src("x"), ["lit", 2]], src("x")]], ["lit", 0]],  # E4
    ["nulls_last", src("x")],  # E5 ordering marker on top
    ["max", src("x"), {"partition_by": [src("g")]}],  # E6 explicit partition
    ["shift", src("x"), 1, None],  # E7 order-dependent window function without arrange= (takes the table's arrange order)
    ["row_number"],  # E8 the same without arguments
    ["case", [[["gt", src("x"), ["lit", 2]], ["lit", 1]]]],  # E9 an open case expression (no otherwise yet)
    ["add", ["col", "C", "x"], ["lit", 1]],  # E10 refers to its column by NAME: it denotes whatever is called x where it is used
]


def P(i):
    return ["pool", i]


VERBS = [
    ["mutate", [["a", P(0)]]],
    ["summarize", [["s", P(0)]]],
    ["group_by", [src("g")]],
    ["mutate", [["w", P(1)]]],
    ["summarize", [["c", P(2)]]],
    ["mutate", [["c", P(2)]]],
    ["mutate", [["e", P(3)]]],
    ["filter", [["gt", P(3), ["lit", 2]]]],
    ["mutate", [["q", P(4)]]],
    ["arrange", [P(5)]],
    ["mutate", [["p", P(6)]]],
    ["summarize", [["d", ["sub", P(0), P(2)]]]],
    ["ungroup"],
    ["mutate", [["r", ["mul", P(0), ["lit", 2]]]]],  # the pooled aggregate nested in a new expression
    ["arrange", [["desc", P(3)], src("k")]],
    ["alias"],
    ["mutate", [["v", P(7)], ["n", P(8)]]],  # the compiler supplies partition / order for these from the table state
    ["group_by", [src("k")], True],  # add=True: extends the grouping of the (shared) parent table
    ["mutate", [["o", ["case_ext", P(9), [[["lt", src("x"), ["lit", 2]], ["lit", -1]]], ["lit", 0]]]]],  # extends the open case expression
    ["mutate", [["o2", ["case_ext", P(9), [], ["lit", 7]]], ["o3", P(9)]]],  # closes it differently / uses it as it is
    ["mutate", [["x", P(10)]]],  # re-binds the name x with the by-name expression ...
    ["mutate", [["y2", P(10)]]],  # ... and uses the same object for another column
]
# verbs whose bookkeeping (name maps, selections, limits, id maps of joins / unions) may be shared with
# the table they are applied to; offered as the first event and, on the source table, as the second event of an interleaving
EXTRA = [
    ["rename", [["k", "x"], ["x", "k"]]],  # name-exchanging
    ["rename", [["x", "xx"]]],
    ["select", [src("x"), src("k")]],
    ["drop", [src("g")]],
    ["slice_head", 2, 0],
    ["join", {"src": "R"}, "left", [["eq", src("k"), ["col", "src", "R", "k"]]]],
    ["union", {"src": "U"}, False],
    ["collect"],
    ["alias", "S"],  # a named alias (the name of the input table must not change)
]
OBS = ["export", "build_query", "str"]


class Live:
    """one fresh world with live pools"""

    def __init__(self, backend):
        self.built = W.build(WORLD, backend)
        self.backend = backend
        self.tables = [self.built.tables["T"]]
        self.derivs = [[]]  # derivation (list of verb terms) of every pooled table
        ctx = I.Ctx(self.built)
        ctx.tables = [self.tables[0]]
        self.exprs = [I.build_expr(t, ctx) for t in EXPRS]
        self.ctx = I.Ctx(self.built, pool=self.exprs)
        self.ctx.tables = [self.tables[0]]
        self.src_snapshot = (self.built.frames["T"].clone() if backend == "polars" else W.sqlite_dump(self.built))

    def close(self):
        self.built.close()

    def source_unchanged(self):
        if self.backend == "polars":
            return self.built.frames["T"].equals(self.src_snapshot) and \
                (self.tables[0] >> pdt.export(pdt.Polars())).equals(self.src_snapshot)
        return W.sqlite_dump(self.built) == self.src_snapshot

    def objects(self):
        return {"tables": list(self.tables), "exprs": list(self.exprs)}

    def fp(self):
        return json.dumps(fingerprint(self.objects()), sort_keys=False, default=str)

    def do(self, ev):
        """execute one event; -> outcome string"""
        kind = ev[0]
        if kind == "apply":
            ti, verb = ev[1], ev[2]
            try:
                res = I.apply_event(self.tables[ti], verb, self.ctx)
            except Exception as e:  # noqa: BLE001
                return f"exc:{type(e).__name__}"
            self.tables.append(res)
            self.derivs.append(self.derivs[ti] + [verb])
            return "ok"
        tbl = self.tables[ev[1]]
        try:
            if kind == "export":
                a = tbl >> pdt.export(pdt.Polars())
                b = tbl >> pdt.export(pdt.Polars())
                # up to row order where no arrange fixes it (polars group_by output order varies)
                if not frames_equal(a, b, ordered=has_arrange(self.derivs[ev[1]])):
                    return "unrepeatable"
                return "ok"
            if kind == "build_query":
                a = tbl >> pdt.build_query()
                b = tbl >> pdt.build_query()
                return "ok" if a == b else "unrepeatable"
            if kind == "str":
                str(tbl)
                return "ok"
        except Exception as e:  # noqa: BLE001
            return f"exc:{type(e).__name__}"
        raise ValueError(ev)


def frames_equal(a, b, ordered):
    return C.diff_frames(list(a.columns), C.frame_rows(a), list(b.columns), C.frame_rows(b), ordered=ordered) is None


_REF_CACHE: dict = {}


def fresh_reference(backend, deriv):
    """outcomes and final export of a derivation rebuilt in a fresh world with fresh
    expression objects for every verb"""
    key = backend + json.dumps(deriv)
    if key in _REF_CACHE:
        return _REF_CACHE[key]
    built = W.build(WORLD, backend)
    try:
        tbl = built.tables["T"]
        outcomes = []
        frame = None
        with warnings.catch_warnings():
            warnings.simplefilter("ignore")
            for verb in deriv:
                ctx = I.Ctx(built)
                ctx.tables = [built.tables["T"]]
                ctx.pool = [I.build_expr(t, ctx) for t in EXPRS]  # fresh objects for every verb
                try:
                    tbl = I.apply_event(tbl, verb, ctx)
                    outcomes.append("ok")
                except Exception as e:  # noqa: BLE001
                    outcomes.append(f"exc:{type(e).__name__}")
                    tbl = None
                    break
            if tbl is not None:
                try:
                    df = tbl >> pdt.export(pdt.Polars())
                    frame = (list(df.columns), C.frame_rows(df))
                except Exception as e:  # noqa: BLE001
                    frame = f"exc:{type(e).__name__}"
    finally:
        built.close()
    _REF_CACHE[key] = (outcomes, frame)
    return _REF_CACHE[key]


def has_arrange(deriv):
    return any(v[0] == "arrange" for v in deriv) and not any(v[0] == "summarize" for v in deriv)


def run_sequence(backend, seq):
    """-> (violations, n_tables_after, outcomes list)"""
    live = Live(backend)
    vs = []
    outcomes = []
    try:
        with warnings.catch_warnings():
            warnings.simplefilter("ignore")
            for ev in seq[:-1]:
                outcomes.append(live.do(ev))
            before = live.fp()
            n_before = (len(live.tables), len(live.exprs))
            last = seq[-1]
            out = live.do(last)
            outcomes.append(out)

            def viol(inv, sym, detail=None):
                vs.append({"invariant": inv, "backend": backend, "symptom": sym, "world": WORLD,
                           "history": seq, "detail": detail or {}})

            if out == "unrepeatable":
                viol("repeatable", last[0])
            # (1) pre-existing objects unchanged
            after_objs = {"tables": live.tables[:n_before[0]], "exprs": live.exprs[:n_before[1]]}
            after = json.dumps(fingerprint(after_objs), sort_keys=False, default=str)
            if after != before:
                viol("objects-unchanged", "fingerprint:" + diff_where(json.loads(before), json.loads(after)),
                     {"event": ev_py(last)})
            if not live.source_unchanged():
                viol("source-unchanged", "source-data")
            # (2) every verb outcome and every pooled table agree with the fresh rebuild
            if last[0] == "apply":
                deriv = live.derivs[last[1]] + [last[2]]
                ref_outcomes, _ = fresh_reference(backend, deriv)
                if ref_outcomes[-1] != out and len(ref_outcomes) == len(deriv):
                    viol("outcome-independent-of-history", f"{ref_outcomes[-1]}->{out}", {"verb": T.py_event(last[2])})
            for ti, tbl in enumerate(live.tables):
                deriv = live.derivs[ti]
                ref_outcomes, ref_frame = fresh_reference(backend, deriv)
                try:
                    df = tbl >> pdt.export(pdt.Polars())
                    got = (list(df.columns), C.frame_rows(df))
                except Exception as e:  # noqa: BLE001
                    got = f"exc:{type(e).__name__}"
                if isinstance(got, str) or isinstance(ref_frame, str) or ref_frame is None:
                    if got != ref_frame and not (isinstance(got, str) and isinstance(ref_frame, str)):
                        viol("result-independent-of-history", "export-outcome", {"table": ti, "live": str(got)[:200], "fresh": str(ref_frame)[:200]})
                    continue
                sym = C.diff_frames(ref_frame[0], ref_frame[1], got[0], got[1], ordered=has_arrange(deriv) and backend == "polars")
                if sym:
                    viol("result-independent-of-history", sym,
                         {"table": ti, "derivation": [T.py_event(v) for v in deriv],
                          "fresh": C.rows_json(ref_frame[1]), "live": C.rows_json(got[1])})
    finally:
        live.close()
    return vs, len(live.tables), outcomes


def diff_where(a, b, path=""):
    """first path where two fingerprints differ (kept short: it is part of the class); column ids
    differ from process to process and are replaced by a placeholder"""
    import re

    return re.sub(r"[0-9a-f]{8}-[0-9a-f]{4}-[0-9a-f-]*", "<id>", _diff_where(a, b, path))


def _diff_where(a, b, path=""):
    if type(a) is not type(b):
        return path or "root"
    if isinstance(a, list):
        if len(a) != len(b):
            return path + "/len"
        for i, (x, y) in enumerate(zip(a, b)):
            if x != y:
                label = x[0] if isinstance(x, list) and x and isinstance(x[0], str) and len(x) == 2 else (a[0] if i and isinstance(a[0], str) else str(i))
                if isinstance(x, list) and isinstance(y, list):
                    return _diff_where(x, y, f"{path}/{label}"[:80])
                return f"{path}/{label}"[:80]
    if isinstance(a, dict):
        for k in a:
            if a[k] != b.get(k):
                return _diff_where(a[k], b.get(k), f"{path}/{k}")
    return path or "root"


def ev_py(ev):
    if ev[0] == "apply":
        return f"T{ev[1]} >> {T.py_event(ev[2])}"
    return f"{ev[0]}(T{ev[1]})"


def kinds(seq):
    out = []
    for ev in seq:
        if ev[0] == "apply":
            out.append(f"{T.kind(pooled_kind(ev[2]))}@T{ev[1]}")
        else:
            out.append(f"{ev[0]}@T{ev[1]}")
    return out


def pooled_kind(verb):
    """replace pool references by their terms so that terms.kind sees the expression kind"""
    def sub(t):
        if isinstance(t, list):
            if len(t) == 2 and t[0] == "pool":
                return EXPRS[t[1]]
            return [sub(x) for x in t]
        if isinstance(t, dict):
            return {k: sub(v) for k, v in t.items()}
        return t
    return sub(verb)


# thorough tier: from the third event on only the verbs that pass pooled objects around
CORE_NAMES = {("mutate", "a"), ("summarize", "s"), ("mutate", "w"), ("mutate", "x")}
CORE = [v for v in VERBS if (v[0] in ("mutate", "summarize") and v[1] and (v[0], v[1][0][0]) in CORE_NAMES)
        or v == ["group_by", [src("g")]] or v == ["ungroup"]]


def enabled(n_tables, pos=0, deep_core=False):
    evs = []
    for ti in range(n_tables):
        # extra verbs: as first event, and as second event on the source table (a sibling derivation)
        verbs = CORE if (deep_core and pos >= 1) else VERBS
        for v in verbs + (EXTRA if pos == 0 or (pos == 1 and ti == 0 and not deep_core) else []):
            evs.append(["apply", ti, v])
        for o in OBS:
            evs.append([o, ti])
    return evs


def explore(backend, first_idx, depth):
    stats = Counter()
    outcomes = Counter()
    violations = []
    samples = []

    def dfs(seq, n_tables):
        evs = enabled(n_tables, len(seq), deep_core=depth >= 4)
        for i, ev in enumerate(evs):
            if not seq and i not in first_idx:
                continue
            s2 = seq + [ev]
            vs, nt, outs = run_sequence(backend, s2)
            stats["states"] += 1
            stats["transitions"] += len(s2)
            stats["traces_validated"] += 1
            outcomes[f"{ev[0]}:{outs[-1]}"] += 1
            if len(samples) < 2 and len(s2) == depth and not vs:
                samples.append({"backend": backend, "interleaving": [ev_py(e) for e in s2], "outcomes": outs})
            if vs:
                violations.extend(vs)
                continue
            if len(s2) < depth:
                dfs(s2, nt)

    dfs([], 1)
    return stats, outcomes, violations, samples


def minimise(v, backend):
    target = (v["invariant"], v["symptom"])
    seq = v["history"]
    improved = True
    while improved:
        improved = False
        for i in range(len(seq) - 1):
            cand = seq[:i] + seq[i + 1:]
            # dropping an apply shifts the table indices of later events
            removed = seq[i]
            ok = True
            if removed[0] == "apply":
                live_idx = 1 + sum(1 for e in seq[:i] if e[0] == "apply")
                new = []
                for e in cand[i:]:
                    ti = e[1]
                    if ti == live_idx:
                        # events on the removed table are rewired to its parent
                        e = [e[0], removed[1], *e[2:]]
                    elif ti > live_idx:
                        e = [e[0], ti - 1, *e[2:]]
                    new.append(e)
                cand = cand[:i] + new
            try:
                vs, _, outs = run_sequence(backend, cand)
            except Exception:  # noqa: BLE001
                continue
            hit = next((x for x in vs if (x["invariant"], x["symptom"]) == target), None)
            if hit:
                seq, v = cand, hit
                improved = True
                break
    return v


def tasks(tier):
    n = len(enabled(1))
    out = []
    for b in W.BACKENDS:
        for i in range(n):
            out.append({"backend": b, "first": [i]})
    return out


def finish(v, backend):
    v = minimise(v, backend)
    v = dict(v)
    v["class"] = "|".join([v["invariant"], v["backend"], ">".join(kinds(v["history"])), v["symptom"]])
    v["py"] = " ; ".join(ev_py(e) for e in v["history"])
    v["count"] = 1
    return v


def run_task(task, tier):
    stats, outcomes, violations, samples = explore(task["backend"], task["first"], 3)
    if DEPTH[tier] >= 4:
        # thorough: the complete depth-3 space (as in the quick tier) plus the depth-4 interleavings
        # whose events after the first come from the core verbs
        st2, oc2, vs2, sm2 = explore(task["backend"], task["first"], DEPTH[tier])
        stats.update(st2)
        outcomes.update(oc2)
        violations = violations + vs2
        samples = (samples + sm2)[:2]
    groups: dict = {}
    for v in violations:
        key = (v["invariant"], v["symptom"], tuple(kinds(v["history"])))
        groups.setdefault(key, []).append(v)
    out = []
    for key, vs in groups.items():
        vs.sort(key=lambda x: len(x["history"]))
        f = finish(vs[0], task["backend"])
        f["count"] = len(vs)
        out.append(f)
    return {"stats": dict(stats), "outcomes": dict(outcomes), "levels": {}, "violations": out, "samples": samples}


def recheck(rec):
    vs, _, _ = run_sequence(rec["backend"], rec["history"])
    return vs


def describe(tier):
    return {
        "pooled_expressions": [f"E{i} = {T.py_expr(t)}" for i, t in enumerate(EXPRS)],
        "verbs": [T.py_event(v).replace("pdt.lit", "lit") for v in VERBS],
        "extra_verbs_first_event_or_second_on_source": [T.py_event(v).replace("pdt.lit", "lit") for v in EXTRA],
        "observations": OBS,
        "events": "apply(<verb with pooled expressions>, T_i) for every pooled table T_i (the result joins the pool) | export(T_i) | build_query(T_i) | str(T_i)",
        "depth": DEPTH[tier],
        "thorough_deep_positions": "at depth 4 every event after the first is taken from the core verbs " + ", ".join(T.py_event(v).replace("pdt.lit", "lit")[:40] for v in CORE),
        "enabled_events_at_root": len(enabled(1)),
        "input_family": "one 5-row table with nulls, two groups and a null group",
        "backends": list(W.BACKENDS),
        "invariants": ["fingerprint of every pre-existing object unchanged (AST, cache, expression trees incl. context_kwargs)",
                       "source frame / SQLite database content unchanged",
                       "verb outcome and export of every pooled table equal to the fresh-world rebuild with fresh expression objects",
                       "export / build_query repeatable"],
        "regime": "tree; every interleaving executed from scratch in a fresh world",
        "assumptions": ["engines trusted", "results compared up to row order where no arrange fixes it"],
    }
