"""python -m pdtmc.subtask <pid> <tier> < task.json : run one task, print the result as JSON
after an ASCII record separator (used to give a task its own PYTHONHASHSEED)."""
import json
import os
import sys

os.environ.setdefault("POLARS_MAX_THREADS", "1")


def main():
    from .engine import load_profile

    pid, tier = sys.argv[1], sys.argv[2]
    task = json.load(sys.stdin)
    res = load_profile(pid).run_task(task, tier)
    sys.stdout.write("\x1e" + json.dumps(res, default=str))


main()
