"""C13 - overload resolution is total, deterministic and uniform.

Exhaustive over ALL operators x ALL argument-type tuples of the type universe (25 types,
each plain and const) for every arity an operator declares (varargs up to the bound):
 (1) totality: the outcome of ``Operator.return_type`` and of real ``ColFn`` construction
     is a return type or DataTypeError, never another exception;
 (2) uniformity (metamorphic relations over the complete outcome table): a sized int /
     float / decimal is accepted wherever the generic type is, with a result of the same
     family; a constant argument is accepted wherever a column argument is; a parameter
     that every overload declares const rejects column arguments;
 (3) determinism: the outcome table is identical in k interpreter processes with
     different hash seeds and when every operator is rebuilt with its signatures permuted."""

from __future__ import annotations

import hashlib
import itertools
from collections import Counter

from pydiverse.common import (
    Bool, Date, Datetime, Decimal, Duration, Enum, Float, Float32, Float64, Int, Int8, Int16, Int32, Int64,
    List, NullType, String, Time, UInt8, UInt16, UInt32, UInt64,
)
from pydiverse.transform._internal.ops.op import Ftype, Operator
from pydiverse.transform._internal.tree import types as ptypes
from pydiverse.transform._internal.tree.col_expr import Col, ColFn, LiteralCol

from .. import opsuniverse as U

PROPERTY = "C13"
HASHSEEDS = [11, 12, 13]

SIZED_INT = [Int8(), Int16(), Int32(), Int64(), UInt8(), UInt16(), UInt32(), UInt64()]
BASE = SIZED_INT + [Int(), Float32(), Float64(), Float(), Decimal(), Decimal(10, 2), Decimal(12, 4), Decimal(12, 6), Decimal(10, 4), String(), String(5), String(10), Enum("a", "b"),
                    Bool(), Date(), Datetime(), Time(), Duration(), NullType(), List(Int64()), List(String())]
UNIVERSE = BASE + [ptypes.Const(t) for t in BASE]
SUB20 = [t for t in UNIVERSE if repr(ptypes.without_const(t)) in
         ("Int64", "Int8", "Int", "Float64", "Float", "String(None)", "Bool", "Date", "Datetime", "NullType")]


def tname(t):
    return repr(t)


def family(t):
    if t is None:
        return None
    b = ptypes.without_const(t)
    if isinstance(b, List):
        return "list:" + family(b.inner)
    if isinstance(b, Decimal):
        return "decimal"
    if b.is_int():
        return "int"
    if b.is_float():
        return "float"
    if isinstance(b, (String, Enum)):
        return "str"
    return type(b).__name__


def arities(op: Operator, max_arity):
    out = set()
    for sig in op.signatures:
        n = len(sig.types)
        if n <= max_arity:
            out.add(n)
        if sig.is_vararg:
            for k in range(n, max_arity + 1):
                out.add(k)
    return sorted(out)


def outcome(fn):
    try:
        r = fn()
    except Exception as e:  # noqa: BLE001
        n = type(e).__name__
        return "DataTypeError" if n == "DataTypeError" else f"EXC:{n}"
    return "DataTypeError" if r is None else f"T:{r!r}"


def universe_for(arity, tier):
    if arity <= 2:
        return UNIVERSE
    if arity == 3 and tier == "thorough":
        return UNIVERSE
    return SUB20


def op_table(op, tier, max_arity, reverse=False):
    """-> dict sig tuple (of type reprs) -> outcome of Operator.return_type.
    ``reverse`` enumerates the tuples in the opposite order: the outcome must not depend on
    which calls were made before (e.g. through a cache keyed too coarsely)."""
    tab = {}
    for ar in (reversed(arities(op, max_arity)) if reverse else arities(op, max_arity)):
        uni = universe_for(ar, tier)
        sigs = itertools.product(uni[::-1] if reverse else uni, repeat=ar)
        for sig in sigs:
            tab[tuple(tname(t) for t in sig)] = outcome(lambda s=sig: op.return_type(list(s)))
    return tab


def declared_instances(op):
    """every declared signature with concrete argument types: generic Int/Float -> Int64/Float64,
    the type variable -> Int64 / String / Bool; const parameters const"""
    out = []
    for sig in op.signatures:
        for tv in (Int64(), String(), Bool(), Decimal(10, 2), Float32(), Decimal(), Date()):
            args = []
            for p in list(sig.types) + ([sig.types[-1]] if sig.is_vararg else []):
                base = ptypes.without_const(p)
                if isinstance(base, ptypes.Tyvar):
                    base = tv
                elif type(base) is Int:
                    base = Int64()
                elif type(base) is Float:
                    base = Float64()
                args.append(ptypes.Const(base) if ptypes.is_const(p) else base)
            out.append((sig, args))
            if not any(isinstance(ptypes.without_const(p), ptypes.Tyvar) for p in sig.types):
                break
    return out


def digest(tab):
    h = hashlib.sha1()
    for k in sorted(tab):
        h.update(("|".join(k) + "=" + tab[k] + "\n").encode())
    return h.hexdigest()


BY_NAME = {tname(t): t for t in UNIVERSE}


def mk_arg(t, i):
    if ptypes.is_const(t):
        return LiteralCol(None, t.base)
    return Col(f"a{i}", None, None, t, Ftype.ELEMENT_WISE)


def colfn_outcome(op, sig):
    kw = {}
    if any(c.name == "arrange" and c.required for c in op.context_kwargs):
        kw["arrange"] = [Col("k", None, None, Int64(), Ftype.ELEMENT_WISE)]
    def f():
        e = ColFn(op, *[mk_arg(t, i) for i, t in enumerate(sig)], **kw)
        return ptypes.without_const(e.dtype())
    return outcome(f)


def viol(invariant, opname, sig, symptom, detail):
    label = f"{opname}({', '.join(sig)})"
    return {"invariant": invariant, "backend": "typecheck", "symptom": symptom, "world": {"tables": {}},
            "history": [["typecheck", opname, list(sig)]], "detail": detail,
            "class": f"{invariant}|{opname}|{symptom}", "count": 1, "py": label, "params": {"op": opname, "sig": list(sig)}}


def permuted(op, order):
    sigs = [op.signatures[i] for i in order]
    return Operator(op.name, *sigs, ftype=op.ftype, context_kwargs=list(op.context_kwargs), param_names=list(op.param_names),
                    default_values=op.default_values, generate_expr_method=op.generate_expr_method)


def permutations_of(n):
    if n <= 1:
        return []
    if n <= 4:
        return [list(p) for p in itertools.permutations(range(n))][1:]
    rots = [list(range(i, n)) + list(range(i)) for i in range(1, n)]
    return rots + [list(reversed(range(n)))]


def check_op(opname, op, tier, stats):
    max_arity = 3 if tier == "thorough" else 2
    vs = []
    tab = op_table(op, tier, max_arity)
    stats["tuples"] += len(tab)
    stats["accepted_tuples"] += sum(1 for o in tab.values() if o.startswith("T:"))
    stats["rejected_tuples"] += sum(1 for o in tab.values() if o == "DataTypeError")
    stats["states"] += len(tab)
    stats["transitions"] += len(tab)
    # (1) totality
    for sig, out in tab.items():
        if out.startswith("EXC:"):
            vs.append(viol("total", opname, sig, out, {}))
    # (1a) every declared signature is accepted with the declared result family (asked last, after
    # the whole table was computed, and looked up in the table as well)
    for sg, args in declared_instances(op):
        key = tuple(tname(t) for t in args)
        now = outcome(lambda a=args: op.return_type(list(a)))
        stats["declared_signatures"] += 1
        for label, out in (("direct", now), ("table", tab.get(key))):
            if out is None:
                continue
            if not out.startswith("T:"):
                vs.append(viol("declared-signature-accepted", opname, key, f"{label}:{out}", {}))
            elif "Tyvar" not in repr(sg.return_type) and \
                    family(sg.return_type) != (family(BY_NAME[out[2:]]) if out[2:] in BY_NAME else out[2:]):
                vs.append(viol("declared-return-family", opname, key, f"{label}:{out[2:]}", {"declared": repr(sg.return_type)}))
    # (1b) real ColFn construction agrees (arity <= 2, and arity 3 over the sub-universe)
    for sig, out in tab.items():
        if len(sig) > 2 and tier != "thorough":
            continue
        if len(sig) > 2 and any(s not in {tname(t) for t in SUB20} for s in sig):
            continue
        real = colfn_outcome(op, [BY_NAME[s] for s in sig])
        stats["traces_validated"] += 1
        if real.startswith("EXC:") and not out.startswith("EXC:"):
            vs.append(viol("total-colfn", opname, sig, real, {"return_type": out}))
        elif (real == "DataTypeError") != (out == "DataTypeError") and not out.startswith("EXC:") and not real.startswith("EXC:"):
            vs.append(viol("colfn-agrees-with-return_type", opname, sig, f"{out}!={real}", {}))
    # (2) uniformity
    generic = {"Int": [tname(t) for t in SIZED_INT], "Float": ["Float32", "Float64"], tname(Decimal()): ["Decimal(10, 2)", "Decimal(12, 4)", "Decimal(12, 6)", "Decimal(10, 4)"]}
    for sig, out in tab.items():
        if not out.startswith("T:"):
            continue
        res_family = family(BY_NAME.get(out[2:])) if out[2:] in BY_NAME else out[2:]
        for i, s in enumerate(sig):
            is_c = s.startswith("const ")
            base = s[6:] if is_c else s
            for sub in generic.get(base, []):
                s2 = list(sig)
                s2[i] = ("const " if is_c else "") + sub
                o2 = tab.get(tuple(s2))
                stats["uniformity_relations"] += 1
                if o2 is None:
                    continue
                if not o2.startswith("T:"):
                    vs.append(viol("sized-accepted-where-generic-is", opname, sig, f"{base}->{sub}:{o2}", {"generic": list(sig), "sized": s2}))
                else:
                    f2 = family(BY_NAME.get(o2[2:])) if o2[2:] in BY_NAME else o2[2:]
                    if f2 != res_family and not _family_follows_argument(out[2:], o2[2:]):
                        vs.append(viol("sized-same-result-family", opname, sig, f"{base}->{sub}:{out[2:]}->{o2[2:]}", {"sized": s2}))
            if not is_c:
                s2 = list(sig)
                s2[i] = "const " + s
                o2 = tab.get(tuple(s2))
                stats["uniformity_relations"] += 1
                if o2 is not None and not o2.startswith("T:"):
                    vs.append(viol("const-accepted-where-column-is", opname, sig, f"pos{i}:{o2}", {"const": s2}))
    # (2b) the type bound to the type variable can hold every argument it unifies (no silent narrowing)
    for sig, out in tab.items():
        if not out.startswith("T:") or out[2:] not in BY_NAME:
            continue
        r = BY_NAME[out[2:]]
        for pos in tyvar_positions(op, len(sig)):
            args = [BY_NAME[sig[i]] for i in pos]
            if len({family(a) for a in args} | {family(r)}) != 1:
                continue
            stats["unification_relations"] += 1
            bad = [tname(a) for a in args if not fits(a, r)]
            if bad:
                vs.append(viol("unified-type-holds-every-argument", opname, sig, f"{'+'.join(sorted(set(tname(ptypes.without_const(BY_NAME[sig[i]])) for i in pos)))}->{out[2:]}", {"does_not_fit": bad}))
    # parameters that every overload declares const reject column arguments
    for ar in arities(op, max_arity):
        for i in range(ar):
            decl = [ptypes.is_const(sg.types[min(i, len(sg.types) - 1)]) for sg in op.signatures
                    if len(sg.types) == ar or (sg.is_vararg and len(sg.types) <= ar)]
            if decl and all(decl):
                for sig, out in tab.items():
                    if len(sig) == ar and not sig[i].startswith("const ") and out.startswith("T:"):
                        vs.append(viol("const-parameter-rejects-column", opname, sig, f"pos{i}", {"outcome": out}))
                        break
    # (3) permutation determinism
    for order in permutations_of(len(op.signatures)):
        try:
            op2 = permuted(op, order)
        except Exception as e:  # noqa: BLE001
            vs.append(viol("permutation-determinism", opname, (), f"rebuild:{type(e).__name__}", {"order": order}))
            continue
        stats["permutations"] += 1
        for sig, out in tab.items():
            if len(sig) > 2 and stats["permutations"] > 0 and tier != "thorough":
                continue
            o2 = outcome(lambda s=sig: op2.return_type([BY_NAME[x] for x in s]))
            if o2 != out:
                vs.append(viol("permutation-determinism", opname, sig, f"{out}->{o2}", {"order": order}))
                break
    return tab, vs


_INT_RANGE = {"Int8": (-2**7, 2**7 - 1), "Int16": (-2**15, 2**15 - 1), "Int32": (-2**31, 2**31 - 1), "Int64": (-2**63, 2**63 - 1),
              "UInt8": (0, 2**8 - 1), "UInt16": (0, 2**16 - 1), "UInt32": (0, 2**32 - 1), "UInt64": (0, 2**64 - 1)}


def fits(a, r):
    """reference rule, written independently of the library's conversion table: every value of
    type ``a`` can be represented in type ``r`` (both of the same family)"""
    a, r = ptypes.without_const(a), ptypes.without_const(r)
    if isinstance(a, Decimal) and isinstance(r, Decimal):
        return r.scale >= a.scale and r.precision - r.scale >= a.precision - a.scale
    if a.is_int() and r.is_int():
        if type(r) is Int:
            return True
        if type(a) is Int:
            return False
        (alo, ahi), (rlo, rhi) = _INT_RANGE[repr(a)], _INT_RANGE[repr(r)]
        return rlo <= alo and ahi <= rhi
    if a.is_float() and r.is_float():
        order = {"Float32": 0, "Float64": 1, "Float": 2}
        return order[repr(r)] >= order[repr(a)]
    if isinstance(a, (String, Enum)) and isinstance(r, (String, Enum)):
        if isinstance(r, Enum):
            return isinstance(a, Enum) and set(a.categories) <= set(r.categories)
        if isinstance(a, Enum):
            return True if r.max_length is None else all(len(c) <= r.max_length for c in a.categories)
        return r.max_length is None or (a.max_length is not None and a.max_length <= r.max_length)
    return True


def tyvar_positions(op, arity):
    """positions that a signature of this arity with a type-variable result declares as the type variable"""
    out = []
    for sg in op.signatures:
        if not isinstance(ptypes.without_const(sg.return_type), ptypes.Tyvar):
            continue
        types_ = list(sg.types)
        if sg.is_vararg and len(types_) <= arity:
            types_ = types_ + [types_[-1]] * (arity - len(types_))
        if len(types_) != arity:
            continue
        pos = [i for i, p in enumerate(types_) if isinstance(ptypes.without_const(p), ptypes.Tyvar)]
        if len(pos) >= 2:
            out.append(pos)
    return out


def _family_follows_argument(a, b):
    return False


def tasks(tier):
    names = [n for n, _ in U.operators()]
    out = []
    step = 4 if tier == "thorough" else 8
    for i in range(0, len(names), step):
        out.append({"ops": names[i:i + step], "main": True})
    for hs in HASHSEEDS:
        for i in range(0, len(names), 24):
            out.append({"ops": names[i:i + 24], "hashseed": hs})
    return out


def run_task(task, tier):
    from pydiverse.transform._internal.ops import ops as _ops

    stats = Counter()
    vs = []
    digests = {}
    for name in task["ops"]:
        op = getattr(_ops, name)
        if task.get("main"):
            tab, v = check_op(name, op, tier, stats)
            vs.extend(v)
        else:
            # the other processes enumerate in reverse order (and with another hash seed)
            tab = op_table(op, "quick", 2, reverse=True)
            stats["states"] += len(tab)
            stats["transitions"] += len(tab)
        digests[name] = digest({k: v for k, v in tab.items() if len(k) <= 2})
    merged: dict = {}
    for v in vs:
        if v["class"] in merged:
            merged[v["class"]]["count"] += 1
        else:
            merged[v["class"]] = v
    samples = []
    if task.get("main") and task["ops"]:
        samples = [{"operator": task["ops"][0], "tuples": stats["tuples"]}]
    outcomes = {}
    if task.get("main"):
        outcomes = {"accepted": stats["accepted_tuples"], "DataTypeError": stats["rejected_tuples"]}
    return {"stats": dict(stats), "outcomes": outcomes, "levels": {}, "violations": list(merged.values()), "samples": samples,
            "digests": {("main" if task.get("main") else f"seed{task.get('hashseed')}"): digests}}


def finalize(total, tier, seed):
    """cross-process determinism: per-operator digests of the arity <= 2 outcome table"""
    dig = total.get("digests", {})
    main = dig.get("main", {})
    vs = []
    n = 0
    for run, d in dig.items():
        if run == "main":
            continue
        for opname, h in d.items():
            n += 1
            if main.get(opname) != h:
                vs.append(viol("process-determinism", opname, (), f"differs-in:{run}", {"main": main.get(opname), run: h}))
    total.setdefault("stats", Counter())["cross_process_comparisons"] += n
    return vs


def recheck(rec):
    from pydiverse.transform._internal.ops import ops as _ops

    p = rec["params"]
    op = getattr(_ops, p["op"])
    stats = Counter()
    _, vs = check_op(p["op"], op, rec.get("tier", "quick"), stats)
    return [v for v in vs if v["class"] == rec["class"]]


def describe(tier):
    return {
        "operators": len(U.operators()),
        "type_universe": [tname(t) for t in BASE],
        "universe_size": len(UNIVERSE),
        "arity": "all declared arities <= 2 over the full universe" + ("; arity 3 over the full universe" if tier == "thorough" else ""),
        "invariants": ["outcome in {return type, DataTypeError} for Operator.return_type and for ColFn construction",
                       "sized int/float/decimal accepted wherever the generic type is, same result family",
                       "const accepted wherever non-const is", "parameters declared const by every overload reject non-const arguments",
                       "every declared signature (generic -> Int64/Float64, S -> Int64/String/Bool) is accepted with the declared result family",
                       "same outcome table with signatures permuted (all permutations for <= 4 signatures, rotations + reversal above)",
                       f"same outcome table in {len(HASHSEEDS)} processes with different PYTHONHASHSEED that enumerate the tuples in reverse order (outcome independent of call history)"],
        "regime": "exhaustive over operators x type tuples",
        "assumptions": ["read-only use of the operator catalogue (ops namespace, Operator.return_type)"],
    }
