#!/venv/bin/python
"""Regenerates /verif/MANIFEST.json from the table below (keeps it valid at all times)."""
import json, os, sys
sys.path.insert(0, os.path.dirname(os.path.dirname(os.path.abspath(__file__))))

TECH = "explicit-state model checking of the implementation: exhaustive enumeration of {what}, every state judged by {oracle}"
CLAIMS = {
 "C01": ("all verb histories over the 42-event full alphabet up to depth 3 (quick) / 4 (thorough) on adversarial, small and tall inputs",
         "the differential oracle polars export == SQLite export",
         "trusted: polars and SQLite engines; reference model only for enabledness/order-totality; SQLite is the only executable SQL dialect here"),
 "C02": ("all histories of row-level verbs (31-event menu) up to depth 3 (quick) / 4 (thorough) on adversarial inputs and all 2-row tables",
         "agreement with the reference model on each backend",
         "trusted: reference model (pdtmc/refmodel.py), polars and SQLite engines"),
}
REASON_TODO = "check under construction in this session (planned in DESIGN.md section 6); not claimed until it runs"

def main():
    props = [json.loads(l)["id"] for l in open("/verif/properties.jsonl")]
    claims = dict(CLAIMS)
    extra = os.path.join(os.path.dirname(__file__), "claims.json")
    if os.path.exists(extra):
        claims.update({k: tuple(v) for k, v in json.load(open(extra)).items()})
    m = {
     "version": 1,
     "setup_cmd": "/venv/bin/python -m compileall -q pdtmc && /venv/bin/python -m pdtmc.selftest",
     "hooks": {"guard": "PYDIVERSE_TRANSFORM_VERIF",
               "enable": "no hooks are needed: every observable is reached through the public API or read-only internals (DESIGN.md 9.2); checks import /repo's working tree through the editable install in /venv",
               "baseline_off_cmd": "cd /repo && /venv/bin/python -m pytest -ra -q -p no:cacheprovider --timeout=900 --continue-on-collection-errors",
               "source_commits": [], "add_only": True},
     "engines": [{"name": "pdtmc", "path": "/verif/pdtmc", "serves_properties": sorted(claims),
                  "kind_free_text": "hand-written explicit-state explorer for Python: exhaustive enumeration of verb histories / programs x inputs on the real library, judged by a reference model, differential, metamorphic or invariant oracles"}],
     "checks": [], "not_applicable": [],
     "notes": "see DESIGN.md; known findings in known_findings.json; seeded property-breaking changes in seeded/",
    }
    for p in props:
        if p in claims:
            what, oracle, note = claims[p]
            m["checks"].append({
              "property_id": p,
              "quick_cmd": f"./check {p} --tier quick",
              "thorough_cmd": f"./check {p} --tier thorough",
              "evidence_file": f"/verif/evidence/{p}.json",
              "replay_cmd_template": "/venv/bin/python -m pdtmc.replay {path}",
              "engine": "pdtmc",
              "level_claimed": {"category": "model_checking",
                                "text": f"bounded-exhaustive: {what}; oracle: {oracle}. Complete within the stated bounds, nothing sampled.",
                                "design_ref": f"DESIGN.md section 6, {p}"},
              "level_note": note,
              "technique": TECH.format(what=what, oracle=oracle)})
        else:
            m["not_applicable"].append({"property_id": p, "reason": REASON_TODO})
    json.dump(m, open("/verif/MANIFEST.json", "w"), indent=1)
    print("claimed:", sorted(claims))

main()
