"""Worlds: the closed systems an exploration runs in.

A world is a JSON-able dict

    {"tables": {"T": {"cols": [["k", "int"], ["x", "int"], ...],
                      "rows": [[1, null, ...], ...]},
                "R": {...}}}

It is materialised twice from the same rows: as polars-backed ``pdt.Table`` objects and
as tables of a fresh in-memory SQLite database (``pdt.Table(sqa.Table, SqlAlchemy(e))``).
Cells are JSON scalars; dates are encoded ``"d:YYYY-MM-DD"`` and datetimes
``"t:YYYY-MM-DDTHH:MM:SS[.ffffff]"``.
"""

from __future__ import annotations

import datetime as _dt
import warnings

import polars as pl
import sqlalchemy as sqa
from sqlalchemy.pool import StaticPool

import pydiverse.transform as pdt

BACKENDS = ("polars", "sqlite")

# model type name -> (polars dtype, sqlalchemy type)
TYPES = {
    "int": (pl.Int64, sqa.BigInteger),
    "int8": (pl.Int8, sqa.SmallInteger),  # no 8 bit type in sqa -> SmallInteger
    "int16": (pl.Int16, sqa.SmallInteger),
    "int32": (pl.Int32, sqa.Integer),
    "int64": (pl.Int64, sqa.BigInteger),
    "uint8": (pl.UInt8, sqa.SmallInteger),
    "uint16": (pl.UInt16, sqa.Integer),
    "uint32": (pl.UInt32, sqa.BigInteger),
    "uint64": (pl.UInt64, sqa.BigInteger),
    "float": (pl.Float64, sqa.Double),
    "float32": (pl.Float32, sqa.Float),
    "float64": (pl.Float64, sqa.Double),
    "bool": (pl.Boolean, sqa.Boolean),
    "str": (pl.String, sqa.String),
    "date": (pl.Date, sqa.Date),
    "datetime": (pl.Datetime("us"), sqa.DateTime),
}


def enc(v):
    """python value -> JSON cell"""
    if isinstance(v, _dt.datetime):
        return "t:" + v.isoformat()
    if isinstance(v, _dt.date):
        return "d:" + v.isoformat()
    return v


def dec(v):
    """JSON cell -> python value"""
    if isinstance(v, str) and len(v) > 2 and v[1] == ":":
        if v[0] == "d":
            return _dt.date.fromisoformat(v[2:])
        if v[0] == "t":
            return _dt.datetime.fromisoformat(v[2:])
    return v


def table_rows(tspec) -> list[tuple]:
    return [tuple(dec(c) for c in row) for row in tspec["rows"]]


def make_polars_frame(tspec) -> pl.DataFrame:
    cols = tspec["cols"]
    rows = table_rows(tspec)
    data = {name: [r[i] for r in rows] for i, (name, _) in enumerate(cols)}
    schema = {name: TYPES[ty][0] for name, ty in cols}
    return pl.DataFrame(data, schema=schema)


class Built:
    """The materialisation of a world on one backend."""

    __slots__ = ("backend", "tables", "engine", "frames", "sqa_tables", "n_mat")

    def __init__(self, backend):
        self.backend = backend
        self.tables: dict[str, pdt.Table] = {}
        self.engine = None
        self.frames = {}
        self.sqa_tables = {}
        self.n_mat = 0

    def close(self):
        if self.engine is not None:
            self.engine.dispose()
            self.engine = None


def new_sqlite_engine():
    engine = sqa.create_engine(
        "sqlite://", poolclass=StaticPool, connect_args={"check_same_thread": False}
    )
    with engine.connect() as conn:
        # the remedy the library's own NonStandardWarning documents
        conn.exec_driver_sql("PRAGMA case_sensitive_like=ON")
        conn.commit()
    return engine


def build(world, backend: str, *, named: bool = True) -> Built:
    """Materialise ``world`` on ``backend``; every call makes fresh objects."""
    b = Built(backend)
    if backend == "polars":
        for name, tspec in world["tables"].items():
            df = make_polars_frame(tspec)
            b.frames[name] = df
            b.tables[name] = pdt.Table(df, name=name if named else None)
        return b
    if backend == "sqlite":
        b.engine = new_sqlite_engine()
        md = sqa.MetaData()
        for name, tspec in world["tables"].items():
            t = sqa.Table(name, md, *(sqa.Column(cn, TYPES[ty][1]) for cn, ty in tspec["cols"]))
            b.sqa_tables[name] = t
        md.create_all(b.engine)
        with b.engine.connect() as conn:
            for name, tspec in world["tables"].items():
                rows = table_rows(tspec)
                if rows:
                    names = [cn for cn, _ in tspec["cols"]]
                    conn.execute(b.sqa_tables[name].insert(), [dict(zip(names, r)) for r in rows])
            conn.commit()
        with warnings.catch_warnings():
            warnings.simplefilter("ignore")
            for name in world["tables"]:
                b.tables[name] = pdt.Table(
                    b.sqa_tables[name], pdt.SqlAlchemy(b.engine), name=name if named else None
                )
        return b
    raise ValueError(backend)


def sqlite_dump(built: Built) -> dict:
    """Snapshot of the SQLite database content (schema + all rows), for C10."""
    out = {}
    with built.engine.connect() as conn:
        out["__master__"] = [tuple(r) for r in conn.exec_driver_sql("select type, name, sql from sqlite_master order by name")]
        for name in built.sqa_tables:
            out[name] = [tuple(r) for r in conn.exec_driver_sql(f'select rowid, * from "{name}" order by rowid')]
    return out
