"""Greedy, deterministic minimisation of a violating (world, history) pair and the
violation class derived from the minimised witness (DESIGN.md 2.5)."""

from __future__ import annotations

import copy

from . import terms as T


def _shift_at(t, i):
    """renumber ["col","at",k,..] references after deleting event i"""
    if isinstance(t, list):
        if len(t) >= 4 and t[0] == "col" and t[1] == "at" and isinstance(t[2], int):
            k = t[2]
            return ["col", "at", k - 1 if k >= i else k, *t[3:]]
        return [_shift_at(x, i) for x in t]
    if isinstance(t, dict):
        return {k: _shift_at(v, i) for k, v in t.items()}
    return t


def candidates(world, hist):
    # delete one event (never the last one: the violation is at the last step)
    for i in range(1, len(hist) - 1):
        h = hist[:i] + [_shift_at(e, i) for e in hist[i + 1:]]
        yield world, h
    # delete one event inside the side table of a join / union
    for i, ev in enumerate(hist):
        if ev[0] in ("join", "union") and ev[1].get("hist"):
            for j in range(len(ev[1]["hist"])):
                side = dict(ev[1])
                side["hist"] = side["hist"][:j] + side["hist"][j + 1:]
                ev2 = list(ev)
                ev2[1] = side
                yield world, hist[:i] + [ev2] + hist[i + 1:]
    # drop one keyword of a multi-keyword mutate / summarize, one predicate, one key
    for i, ev in enumerate(hist):
        if ev[0] in ("mutate", "summarize", "filter", "arrange") and len(ev[1]) > 1:
            for j in range(len(ev[1])):
                ev2 = [ev[0], ev[1][:j] + ev[1][j + 1:], *ev[2:]]
                yield world, hist[:i] + [ev2] + hist[i + 1:]
    # delete one row of one table
    for name, t in world["tables"].items():
        for j in range(len(t["rows"])):
            w2 = copy.deepcopy(world)
            del w2["tables"][name]["rows"][j]
            yield w2, hist


def minimise(v, recheck, max_rounds=40):
    """v: violation dict; recheck(world, hist) -> (violations, step_index) as
    explore.check_history.  Returns a (possibly smaller) violation dict."""
    target = (v["invariant"], v["backend"], v["symptom"])
    world, hist = v["world"], v["history"]
    best = v
    for _ in range(max_rounds):
        improved = False
        for w2, h2 in candidates(world, hist):
            try:
                vs, idx = recheck(w2, h2)
            except Exception:  # noqa: BLE001
                continue
            if not vs or idx != len(h2) - 1:
                continue
            hit = next((x for x in vs if (x["invariant"], x["backend"], x["symptom"]) == target), None)
            if hit is None:
                continue
            world, hist, best = w2, h2, hit
            improved = True
            break
        if not improved:
            break
    return best


def vclass(v) -> str:
    return "|".join([v["invariant"], v["backend"], ">".join(T.kinds(v["history"])), v["symptom"]])


def raw_class(v) -> str:
    return vclass(v)
