#!/bin/bash
# Regression screen for fix: commits (DESIGN.md 7.2): runs the upstream
# tests/test_backend_equivalence modules against polars+SQLite in a scratch copy
# (the pinned suite executes no SQL offline because the fixtures import filelock/duckdb).
# usage: tools/upstream_sqlite.sh [extra pytest args]
set -e
S=$(mktemp -d /tmp/upstream_sqlite.XXXXXX)
trap 'rm -rf "$S" /tmp/transform' EXIT
cp -r /repo/tests "$S/tests"
cp /repo/pytest.ini "$S/" 2>/dev/null || true
cat > "$S/filelock.py" <<'PY'
import contextlib
class FileLock(contextlib.AbstractContextManager):
    def __init__(self, *a, **k): pass
    def __exit__(self, *a): return False
PY
cd "$S"
PYTHONPATH="$S" /venv/bin/python -m pytest -q -p no:cacheprovider --sqlite tests/test_backend_equivalence tests/test_sql_table.py "$@" 2>&1 | grep -vE "duckdb|^$" | tail -40
