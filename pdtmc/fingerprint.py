"""Structural fingerprint of pydiverse.transform objects (tables, AST nodes, caches,
expression trees): every semantic field, recursively; memoised ``_dtype`` / ``_ftype`` of
computed expressions are excluded (they are caches, checked through the differential
oracle instead).  Foreign objects (polars frames, SQLAlchemy tables/engines) are
represented by their identity."""

from __future__ import annotations

import enum
import uuid

from pydiverse.common import Dtype
from pydiverse.transform._internal.ops.op import Operator
from pydiverse.transform._internal.tree.col_expr import Col, ColExpr, Order

SKIP_ON_EXPR = {"_dtype", "_ftype"}


def _fields(o):
    names = []
    for klass in type(o).__mro__:
        for n in getattr(klass, "__slots__", ()):
            if isinstance(n, str):
                names.append(n)
    try:
        d = object.__getattribute__(o, "__dict__")
    except Exception:  # noqa: BLE001  (Table.__getattr__ treats unknown names as columns)
        d = None
    if d:
        names.extend(d.keys())
    seen = []
    for n in names:
        if n not in seen and n != "__weakref__" and n != "__dict__":
            seen.append(n)
    return seen


def fingerprint(o, _depth=0, _stack=None):
    if _stack is None:
        _stack = set()
    if o is None or isinstance(o, (str, int, float, bool, bytes)):
        return repr(o)
    if isinstance(o, uuid.UUID):
        return str(o)
    if isinstance(o, enum.Enum):
        return f"{type(o).__name__}.{o.name}"
    if isinstance(o, Dtype):
        return repr(o)
    if isinstance(o, Operator):
        return f"op:{o.name}"
    if isinstance(o, (list, tuple)):
        return [fingerprint(x, _depth + 1, _stack) for x in o]
    if isinstance(o, dict):
        return [[fingerprint(k, _depth + 1, _stack), fingerprint(v, _depth + 1, _stack)] for k, v in o.items()]
    if isinstance(o, (set, frozenset)):
        return sorted(str(fingerprint(x, _depth + 1, _stack)) for x in o)
    mod = type(o).__module__ or ""
    if isinstance(o, Col):
        # a column is its name and identity (and its *declared* types); the table it points
        # to is represented by identity
        return ["Col", o.name, str(o._uuid), repr(o._dtype), repr(o._ftype), id(o._ast)]
    if mod.startswith("pydiverse"):
        if id(o) in _stack:
            return ["cycle", type(o).__name__]
        _stack.add(id(o))
        try:
            out = [type(o).__name__]
            is_expr = isinstance(o, (ColExpr, Order))
            for n in _fields(o):
                if is_expr and n in SKIP_ON_EXPR:
                    continue
                try:
                    v = object.__getattribute__(o, n)
                except Exception:  # noqa: BLE001
                    continue
                if callable(v) and not isinstance(v, (ColExpr,)):
                    continue
                out.append([n, fingerprint(v, _depth + 1, _stack)])
            return out
        finally:
            _stack.discard(id(o))
    return ["ext", type(o).__name__, id(o)]
