#!/venv/bin/python
"""Evaluate one seeded property-breaking change produced by a sub-agent.

usage: tools/seed_eval.py <worktree dir> <seed id> <check id> [<check id> ...] [--tier quick]

1. copies SEEDED/{patch.diff,demo.py,meta.json} to /verif/seeded/<seed id>/
2. confirms in a fresh scratch worktree of /repo: demo passes on the original code; with the
   patch the pinned suite still has 64 passes and the demo fails
3. applies the patch to /repo, runs the given checks, reverts /repo
4. records everything in /verif/seeded/<seed id>/meta.json ("evaluation")
"""
import json
import os
import shutil
import subprocess
import sys
import time

PY = "/venv/bin/python"


def sh(cmd, cwd=None, env=None, timeout=3600):
    r = subprocess.run(cmd, shell=True, cwd=cwd, env=env, stdout=subprocess.PIPE, stderr=subprocess.STDOUT, text=True, timeout=timeout)
    return r.returncode, r.stdout


def main():
    args = [a for a in sys.argv[1:] if not a.startswith("--")]
    tier = "quick"
    if "--tier" in sys.argv:
        tier = sys.argv[sys.argv.index("--tier") + 1]
        args = [a for a in args if a != tier]
    wt, sid, checks = args[0], args[1], args[2:]
    dst = f"/verif/seeded/{sid}"
    os.makedirs(dst, exist_ok=True)
    previous = []
    if os.path.exists(os.path.join(dst, "meta.json")):
        try:
            previous = json.load(open(os.path.join(dst, "meta.json"))).get("evaluations", [])
        except Exception:  # noqa: BLE001
            previous = []
    for f in ("patch.diff", "demo.py", "meta.json"):
        src = os.path.join(wt, "SEEDED", f)
        if os.path.exists(src) and not (f == "meta.json" and previous):
            shutil.copy(src, os.path.join(dst, f))
    meta = {}
    try:
        meta = json.load(open(os.path.join(dst, "meta.json")))
    except Exception as e:  # noqa: BLE001
        meta = {"note": f"meta.json of the sub-agent unreadable: {e}"}
    ev = {"at": time.strftime("%Y-%m-%d %H:%M:%S"), "repo_head": sh("git -C /repo rev-parse --short HEAD")[1].strip()}

    # 2. independent confirmation in a fresh worktree
    vt = f"/tmp/wt/verify_{sid}"
    sh(f"git -C /repo worktree remove --force {vt}")
    sh(f"git -C /repo worktree add -q --detach {vt} HEAD")
    env = dict(os.environ, PYTHONPATH=f"{vt}/src", POLARS_MAX_THREADS="1")
    rc0, out0 = sh(f"{PY} {dst}/demo.py", cwd=vt, env=env)
    ev["demo_on_original"] = {"exit": rc0, "tail": out0[-400:]}
    rca, outa = sh(f"git -C {vt} apply {dst}/patch.diff")
    ev["patch_applies"] = rca == 0
    if rca != 0:
        ev["patch_error"] = outa[-400:]
    rcs, outs = sh(f"{PY} -m pytest -q -p no:cacheprovider --timeout=900 --continue-on-collection-errors 2>&1 | tail -1", cwd=vt, env=env)
    ev["suite_with_patch"] = outs.strip()[-200:]
    rc1, out1 = sh(f"{PY} {dst}/demo.py", cwd=vt, env=env)
    ev["demo_with_patch"] = {"exit": rc1, "tail": out1[-600:]}
    sh(f"git -C /repo worktree remove --force {vt}")
    ev["confirmed"] = bool(rc0 == 0 and rca == 0 and "64 passed" in outs and rc1 != 0)

    # 3. run the checks against the patched /repo
    results = {}
    if ev["confirmed"]:
        st = sh("git -C /repo status --porcelain")[1].strip()
        if st:
            print("REFUSING: /repo has uncommitted changes:\n" + st)
            sys.exit(2)
        rc, out = sh(f"git -C /repo apply {dst}/patch.diff")
        assert rc == 0, out
        try:
            for c in checks:
                t0 = time.time()
                rc, out = sh(f"./check {c} --tier {tier}", cwd="/verif", timeout=7200)
                lines = [ln for ln in out.splitlines() if ln.startswith(("VIOLATION", "  class:", "harness error", "KNOWN-FINDING"))]
                results[c] = {"exit": rc, "detected": rc == 1 and any(ln.startswith("VIOLATION") for ln in lines),
                              "wall_s": round(time.time() - t0, 1), "lines": lines[:12], "summary": out.strip().splitlines()[-1][:300] if out.strip() else ""}
        finally:
            sh("git -C /repo checkout -- .")
        # evidence files were rewritten by runs on a patched tree: restore the committed ones
        sh("git -C /verif checkout -- evidence")
    ev["checks"] = results
    ev["tier"] = tier
    meta["evaluations"] = previous + meta.get("evaluations", []) + [ev]
    meta["evaluation"] = ev
    json.dump(meta, open(os.path.join(dst, "meta.json"), "w"), indent=1)
    print(json.dumps({"seed": sid, "confirmed": ev["confirmed"], "suite": ev["suite_with_patch"],
                      "demo": [rc0, rc1], "checks": {c: (r["exit"], r["detected"], r["wall_s"]) for c, r in results.items()}}, indent=1))
    for c, r in results.items():
        for ln in r["lines"][:6]:
            print("   ", c, ln[:200])


main()
