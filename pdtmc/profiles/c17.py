"""C17 - casts follow the documented conversion table.

(accept) every (source type, target type) pair over the type universe, source plain and
         const: the outcome of building the cast is compared with the table transcribed
         from the ``cast`` documentation (plus the implicit conversions and bool -> int);
         outside the table -> DataTypeError when the expression is built; for type pairs
         the documentation does not mention only totality is required;
(values) for every accepted pair that polars and SQLite can execute, the full set of
         boundary values (negative fractions, zero, large magnitudes, numerals with sign
         and leading zeros, dates with and without time, nulls) through
         ``mutate(y=x.cast(T))``, also nested (cast of a cast, cast inside arithmetic);
         oracle: the documented conversion, on both backends."""

from __future__ import annotations

import itertools
from collections import Counter

from pydiverse.common import (
    Bool, Date, Datetime, Decimal, Duration, Enum, Float, Float32, Float64, Int, Int8, Int16, Int32, Int64,
    List, NullType, String, Time, UInt8, UInt16, UInt32, UInt64,
)
from pydiverse.transform._internal.ops.op import Ftype
from pydiverse.transform._internal.tree import types as ptypes
from pydiverse.transform._internal.tree.col_expr import Cast, Col, LiteralCol

from .. import explore as X
from .. import terms as T
from . import base

PROPERTY = "C17"

INTS = [Int8(), Int16(), Int32(), Int64(), UInt8(), UInt16(), UInt32(), UInt64()]
DOC_SOURCES = INTS + [Int(), Float32(), Float64(), Float(), String(), Bool(), Date(), Datetime(), NullType()]
DOC_TARGETS = INTS + [Float32(), Float64(), String(), Bool(), Date(), Datetime()]
OTHER = [Decimal(), Decimal(10, 2), String(5), Enum("a", "b"), Time(), Duration(), List(Int64()), List(String())]
ALL_TYPES = DOC_SOURCES + OTHER
ALL_TARGETS = DOC_TARGETS + [Int(), Float(), NullType()] + OTHER


def fam(t):
    t = ptypes.without_const(t)
    if isinstance(t, NullType):
        return "null"
    if t.is_int():
        return "int"
    if t.is_float() and not isinstance(t, Decimal):
        return "float"
    if isinstance(t, Bool):
        return "bool"
    if type(t) is String and t.max_length is None:
        return "str"
    if type(t) is Date:
        return "date"
    if type(t) is Datetime:
        return "datetime"
    return "other"


# the documented table over families: True accept, False reject, None unspecified
DOC = {
    ("int", "int"): True, ("int", "float"): True, ("int", "str"): True, ("int", "bool"): False, ("int", "date"): False, ("int", "datetime"): False,
    ("float", "int"): True, ("float", "float"): True, ("float", "str"): True, ("float", "bool"): False, ("float", "date"): False, ("float", "datetime"): False,
    ("str", "int"): True, ("str", "float"): True, ("str", "str"): True, ("str", "bool"): False, ("str", "date"): False, ("str", "datetime"): False,
    ("bool", "int"): True, ("bool", "float"): None, ("bool", "str"): None, ("bool", "bool"): True, ("bool", "date"): False, ("bool", "datetime"): False,
    ("date", "datetime"): True, ("date", "str"): True, ("date", "date"): True, ("date", "int"): False, ("date", "float"): False, ("date", "bool"): False,
    ("datetime", "date"): True, ("datetime", "str"): True, ("datetime", "datetime"): True, ("datetime", "int"): False, ("datetime", "float"): False, ("datetime", "bool"): False,
}


def expected(src, tgt):
    fs, ft = fam(src), fam(tgt)
    if fs == "other" or ft == "other":
        return None
    if type(tgt) in (Int, Float):
        return None  # the table only names sized targets
    if fs == "null":
        return True  # null converts to every (simple) type
    return DOC.get((fs, ft))


def build_cast(src, tgt):
    if ptypes.is_const(src):
        arg = LiteralCol(None, src.base)
    else:
        arg = Col("a", None, None, src, Ftype.ELEMENT_WISE)
    return Cast(arg, tgt)


def accept_part():
    stats = Counter()
    vs = []
    for src in ALL_TYPES + [ptypes.Const(t) for t in ALL_TYPES]:
        for tgt in ALL_TARGETS:
            stats["states"] += 1
            stats["transitions"] += 1
            stats["traces_validated"] += 1
            try:
                c = build_cast(src, tgt)
                c.dtype()
                out = "accept"
            except Exception as e:  # noqa: BLE001
                out = "DataTypeError" if type(e).__name__ == "DataTypeError" else f"EXC:{type(e).__name__}"
            stats[f"outcome:{out if not out.startswith('EXC') else 'other-exception'}"] += 1
            exp = expected(src, tgt)
            label = f"cast({src!r} -> {tgt!r})"
            if out.startswith("EXC:"):
                vs.append(mk("cast-acceptance-total", label, out, {}))
            elif exp is True and out != "accept":
                vs.append(mk("documented-cast-accepted", label, out, {}))
            elif exp is False and out != "DataTypeError":
                vs.append(mk("undocumented-cast-rejected-at-build", label, out, {}))
            if exp is None:
                stats["unspecified_pairs"] += 1
    return stats, vs


def mk(invariant, label, symptom, detail):
    return {"invariant": invariant, "backend": "typecheck", "symptom": symptom, "world": {"tables": {}}, "history": [["cast", label]],
            "detail": detail, "class": f"{invariant}|{label}|{symptom}", "count": 1, "py": label, "params": {"part": "accept"}}


# ---------------------------------------------------------------------------------------
# values

VAL = {
    "float": [None, -2.75, -0.5, -0.25, 0.0, 0.25, 2.5, 1000.5],
    "int": [None, -1000000, -1, 0, 1, 1000000],
    "smallint": [None, -100, -1, 0, 1, 100],
    "bool": [None, True, False],
    "numeral_int": [None, "0", "7", "-7", "+7", "007"],
    "numeral_float": [None, "0", "7", "1.5", "-0.25", "+2.5"],
    "date": [None, "d:1999-12-31", "d:2020-01-02"],
    "datetime": [None, "t:1999-12-31T23:59:59", "t:2020-01-02T00:00:00", "t:2020-01-02T03:04:05.000006"],
}
COLSPEC = [
    ("f", "float", "float"), ("f32", "float32", "float"), ("i", "int", "int"), ("i8", "int8", "smallint"), ("i32", "int32", "int"),
    ("b", "bool", "bool"), ("si", "str", "numeral_int"), ("sf", "str", "numeral_float"), ("d", "date", "date"), ("t", "datetime", "datetime"),
]
INT_TARGETS = ["int8", "int16", "int32", "int64"]


def value_worlds():
    """one world per source column: column `a` with the boundary values"""
    out = {}
    for name, ty, dom in COLSPEC:
        rows = [[i + 1, v] for i, v in enumerate(VAL[dom])]
        out[name] = {"tables": {"T": {"cols": [["k", "int"], ["a", ty]], "rows": rows}}}
    return out


A = ["col", "src", "T", "a"]


def value_programs(tier):
    """-> dict source column -> list of expression terms"""
    P = {n: [] for n, _, _ in COLSPEC}
    for src in ("f", "f32"):
        for t in INT_TARGETS:
            if t == "int8":
                continue  # 1000.5 does not fit (narrowing overflow is backend-dependent)
            P[src].append(["cast", A, t])
        P[src] += [["cast", A, "float64"], ["cast", A, "float32"]]
        if src == "f":
            P[src].append(["cast", A, "str"])
    for src in ("i", "i32"):
        P[src] += [["cast", A, "float64"], ["cast", A, "str"], ["cast", A, "int64"], ["cast", A, "int32"]]
    P["i8"] += [["cast", A, t] for t in INT_TARGETS] + [["cast", A, "float32"], ["cast", A, "str"]]
    P["b"] += [["cast", A, t] for t in INT_TARGETS]
    P["si"] += [["cast", A, t] for t in INT_TARGETS if t != "int8"] + [["cast", A, "int8"]]
    P["sf"] += [["cast", A, "float64"], ["cast", A, "float32"]]
    P["d"] += [["cast", A, "datetime"], ["cast", A, "str"], ["cast", A, "date"]]
    P["t"] += [["cast", A, "date"], ["cast", A, "str"], ["cast", A, "datetime"]]
    # nested: cast of a cast, cast inside arithmetic
    P["f"] += [["cast", ["cast", A, "int64"], "str"], ["cast", ["cast", A, "int32"], "float64"], ["add", ["cast", A, "int64"], ["lit", 1]],
               ["cast", ["mul", A, ["lit", 2.0]], "int64"], ["cast", ["neg", A], "int16"]]
    P["i"] += [["cast", ["cast", A, "str"], "int64"], ["truediv", ["cast", A, "float64"], ["lit", 2]], ["cast", ["cast", A, "float64"], "int64"],
               ["cast", ["floordiv", A, ["lit", 7]], "str"]]
    P["si"] += [["cast", ["cast", A, "int64"], "float64"], ["add", ["cast", A, "int64"], ["lit", 1]], ["cast", ["cast", A, "int64"], "str"]]
    P["sf"] += [["cast", ["cast", A, "float64"], "int64"]]
    P["b"] += [["add", ["cast", A, "int64"], ["lit", 1]], ["cast", ["cast", A, "int8"], "str"]]
    P["t"] += [["cast", ["cast", A, "date"], "str"], ["cast", ["cast", A, "date"], "datetime"], ["dt_year", ["cast", A, "date"]]]
    P["d"] += [["cast", ["cast", A, "datetime"], "str"], ["cast", ["cast", A, "datetime"], "date"]]
    return P


# constants: a cast applied to a literal, and to a constant column created by an earlier verb
CONSTS = {"cf": -2.75, "cf2": 2.5, "ci": -1, "ci2": 1000000, "cb": True, "csi": "+7", "csf": "-0.25", "cd": "d:2020-01-02",
          "ct": "t:2020-01-02T03:04:05.000006", "ct2": "t:1999-12-31T23:59:59"}
CONST_TARGETS = {"cf": ["int64", "int32", "float32", "str"], "cf2": ["int64", "int16", "str"], "ci": ["float64", "str", "int8", "int32"],
                 "ci2": ["float64", "str", "int32"], "cb": ["int64", "int8"], "csi": ["int64", "int16"], "csf": ["float64", "float32"],
                 "cd": ["datetime", "str", "date"], "ct": ["date", "str", "datetime"], "ct2": ["date", "str"]}
CONST_WORLD = {"tables": {"T": {"cols": [["k", "int"], ["a", "int"]], "rows": [[1, 5], [2, None]]}}}


def const_alphabet(st, hist):
    def casts(ref):
        out = []
        for n, tgts in CONST_TARGETS.items():
            for t in tgts:
                out.append(["mutate", [["y", ["cast", ref(n), t]]]])
        out.append(["mutate", [["y", ["cast", ["cast", ref("ct"), "date"], "str"]]]])
        out.append(["mutate", [["y", ["cast", ["cast", ref("cd"), "datetime"], "str"]]]])
        out.append(["mutate", [["y", ["cast", ["cast", ref("ct"), "date"], "datetime"]]]])
        out.append(["mutate", [["y", ["dt_year", ["cast", ref("ct2"), "date"]]]]])
        out.append(["mutate", [["y", ["add", ["cast", ref("cf"), "int64"], A]]]])
        out.append(["filter", [["eq", ["cast", ref("ct"), "date"], ["cast", ref("cd"), "date"]]]])
        return out
    if len(hist) == 1:
        return [["mutate", [[n, ["lit", v]] for n, v in CONSTS.items()]]] + casts(lambda n: ["lit", CONSTS[n]])
    if hist[1][1][0][0] == "cf" and len(hist) == 2:
        return casts(lambda n: ["col", "C", n])
    return []


def const_explorer(world):
    return X.Explorer(world, alphabet=const_alphabet, checks=[], depth=2, oracle="both", names="list")


def make_explorer(world, events):
    return X.Explorer(world, alphabet=lambda st, hist: events, checks=[], depth=1, oracle="both", names="list")


def tasks(tier):
    return [{"part": "accept"}] + [{"part": "values", "col": n} for n, _, _ in COLSPEC] + [{"part": "const"}]


def classify(v):
    ev = v["history"][-1]
    from .c03 import shape

    ty = v["world"]["tables"]["T"]["cols"][1][1]
    return "|".join([v["invariant"], v["backend"], f"{shape(ev[1][0][1])}[{ty}]".replace("cast(col)", "cast"), _target(ev), v["symptom"]])


def classify_const(v):
    ev = v["history"][-1]
    from .c03 import shape

    t = ev[1][0][1] if ev[0] == "mutate" else ev[1][0]
    return "|".join([v["invariant"], v["backend"], ("constcol:" if len(v["history"]) > 2 else "literal:") + shape(t), T.py_expr(t)[-40:], v["symptom"]])


def _target(ev):
    t = ev[1][0][1]
    return "->" + (t[2] if t[0] == "cast" else "expr")


def run_task(task, tier):
    if task["part"] == "accept":
        stats, vs = accept_part()
        merged = {}
        for v in vs:
            merged.setdefault(v["class"], v)
        return {"stats": dict(stats), "outcomes": {k: v for k, v in stats.items() if k.startswith("outcome:")}, "levels": {},
                "violations": list(merged.values()), "samples": [{"pairs": stats["states"]}]}
    if task["part"] == "const":
        return base.run_history_task(const_explorer, CONST_WORLD, [["source", "T"]], None, params={"part": "const"}, classify=classify_const)
    world = value_worlds()[task["col"]]
    events = [["mutate", [["y", term]]] for term in value_programs(tier)[task["col"]]]
    res = base.run_history_task(lambda w: make_explorer(w, events), world, [["source", "T"]], None,
                                params={"part": "values", "col": task["col"]}, classify=classify)
    res["stats"]["value_evaluations"] = len(events) * len(world["tables"]["T"]["rows"]) * 2
    return res


def recheck(rec):
    p = rec.get("params") or {}
    if p.get("part") == "accept":
        _, vs = accept_part()
        return [v for v in vs if v["class"] == rec["class"]]
    if p.get("part") == "const":
        return base.recheck_history(const_explorer, rec)
    ev = rec["history"][-1]
    return base.recheck_history(lambda w: make_explorer(w, [ev]), rec)


def describe(tier):
    progs = value_programs(tier)
    return {
        "acceptance": {"sources": [repr(t) for t in ALL_TYPES], "targets": [repr(t) for t in ALL_TARGETS], "source_variants": "plain and const",
                       "pairs": 2 * len(ALL_TYPES) * len(ALL_TARGETS),
                       "table": "int->int/float/str; float->int/float/str; str->int/float; bool->int; date->datetime/str; datetime->date/str; null->anything; identity; everything else among int/float/str/bool/date/datetime is rejected with DataTypeError; bool->float/str and pairs with Decimal/Enum/String(n)/Time/Duration/List: unspecified (totality only)"},
        "values": {"columns": {n: VAL[d] for n, _, d in COLSPEC}, "programs": {n: [T.py_expr(t) for t in ts] for n, ts in progs.items()},
                   "n_programs": sum(len(v) for v in progs.values())},
        "backends": ["polars", "sqlite"],
        "oracle": "documented conversion: truncation toward zero, 0/1, exact int->float, canonical text, plain numerals incl. sign and leading zeros, drop time / add midnight, null stays null; execution never raises",
        "regime": "exhaustive over type pairs and boundary value sets",
        "assumptions": ["reference model s_cast transcribes the cast documentation", "narrowing casts only with values that fit; no surrounding whitespace in numerals (documented as not allowed)"],
    }
