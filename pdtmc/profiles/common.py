"""Worlds and event menus shared by several profiles."""

from __future__ import annotations

import itertools


def col(t, n):
    return ["col", "src", t, n]


def Cn(n):
    return ["col", "C", n]


def lit(v):
    return ["lit", v]


T_COLS = [["k", "int"], ["g", "int"], ["x", "int"], ["s", "str"]]
R_COLS = [["k", "int"], ["w", "int"]]


def world(t_rows, r_rows=None, u_rows=None, t_cols=None):
    w = {"tables": {"T": {"cols": t_cols or T_COLS, "rows": t_rows}}}
    if r_rows is not None:
        w["tables"]["R"] = {"cols": R_COLS, "rows": r_rows}
    if u_rows is not None:
        w["tables"]["U"] = {"cols": t_cols or T_COLS, "rows": u_rows}
    return w


# adversarial inputs: duplicates, ties under the first sort key, an all-null group, a null
# key, a single row, empty
ADV_T = [
    [[1, 1, 5, "a"], [2, 1, None, "b"], [3, None, 2, "a"], [4, 2, 2, None], [5, None, None, "b"]],
    [[1, 2, 3, "b"], [2, 2, 3, "b"], [3, 1, 1, "a"]],
    [],
    [[1, None, None, None]],
]
ADV_R = [[1, 10], [1, 11], [3, None], [None, 7], [6, 1]]
ADV_U = [[7, 1, 5, "a"], [8, None, 2, "a"], [1, 1, 5, "a"]]


def adv_worlds(n=3, with_r=False, with_u=False):
    out = []
    for rows in ADV_T[:n]:
        out.append(world(rows, ADV_R if with_r else None, ADV_U if with_u else None))
    return out


def rows_upto(domains, n, *, multiset=True, with_id=False):
    """all tables with 0..n rows whose cells range over ``domains`` (list per column).
    multiset=True: rows in canonical order (one representative per multiset)."""
    row_types = list(itertools.product(*domains))
    out = []
    for m in range(n + 1):
        it = (itertools.combinations_with_replacement(row_types, m) if multiset
              else itertools.product(row_types, repeat=m))
        for rows in it:
            rs = [list(r) for r in rows]
            if with_id:
                rs = [[i + 1, *r] for i, r in enumerate(rs)]
            out.append(rs)
    return out
