"""python -m pdtmc.triage <id>: list the violation classes of the last run with their witnesses."""
import json, os, sys

ROOT = os.path.dirname(os.path.dirname(os.path.abspath(__file__)))


def main():
    pid = sys.argv[1].upper()
    full = "--full" in sys.argv
    vs = json.load(open(os.path.join(ROOT, "replays", pid, "_all.json")))
    vs.sort(key=lambda v: (v["class"], len(json.dumps(v["world"])) + len(json.dumps(v["history"]))))
    seen = {}
    for v in vs:
        if v["class"] in seen:
            seen[v["class"]]["count"] += v["count"]
        else:
            seen[v["class"]] = v
    for v in seen.values():
        print("==", v["class"], f"(x{v['count']})")
        print("  ", (v["py"] or "").replace("\n", " "))
        rows = {n: t["rows"] for n, t in v["world"]["tables"].items()}
        print("   input:", json.dumps(rows)[: 2000 if full else 200])
        d = json.dumps(v["detail"], default=str)
        print("   detail:", d[: 4000 if full else 400])


main()
