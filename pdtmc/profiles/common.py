"""Worlds and event menus shared by several profiles."""

from __future__ import annotations

import itertools


def col(t, n):
    return ["col", "src", t, n]


def Cn(n):
    return ["col", "C", n]


def lit(v):
    return ["lit", v]


T_COLS = [["k", "int"], ["g", "int"], ["x", "int"], ["s", "str"]]
R_COLS = [["k", "int"], ["w", "int"]]


def world(t_rows, r_rows=None, u_rows=None, t_cols=None):
    w = {"tables": {"T": {"cols": t_cols or T_COLS, "rows": t_rows}}}
    if r_rows is not None:
        w["tables"]["R"] = {"cols": R_COLS, "rows": r_rows}
    if u_rows is not None:
        w["tables"]["U"] = {"cols": t_cols or T_COLS, "rows": u_rows}
    return w


# adversarial inputs: duplicates, ties under the first sort key, an all-null group, a null
# key, a single row, empty
ADV_T = [
    [[1, 1, 5, "a"], [2, 1, None, "b"], [3, None, 2, "a"], [4, 2, 2, None], [5, None, None, "b"]],
    [[1, 2, 3, "b"], [2, 2, 3, "b"], [3, 1, 1, "a"]],
    [],
    [[1, None, None, None]],
]
ADV_R = [[1, 10], [1, 11], [3, None], [None, 7], [6, 1]]
ADV_U = [[7, 1, 5, "a"], [8, None, 2, "a"], [1, 1, 5, "a"]]


def adv_worlds(n=3, with_r=False, with_u=False):
    out = []
    for rows in ADV_T[:n]:
        out.append(world(rows, ADV_R if with_r else None, ADV_U if with_u else None))
    return out


def rows_upto(domains, n, *, multiset=True, with_id=False):
    """all tables with 0..n rows whose cells range over ``domains`` (list per column).
    multiset=True: rows in canonical order (one representative per multiset)."""
    row_types = list(itertools.product(*domains))
    out = []
    for m in range(n + 1):
        it = (itertools.combinations_with_replacement(row_types, m) if multiset
              else itertools.product(row_types, repeat=m))
        for rows in it:
            rs = [list(r) for r in rows]
            if with_id:
                rs = [[i + 1, *r] for i, r in enumerate(rs)]
            out.append(rs)
    return out


# --------------------------------------------------------------------------------------
# the "full alphabet" world and menu (C01, C08, C11, C14 converse, C19, C20)

F_COLS = [["k", "int"], ["g", "int"], ["x", "int"], ["f", "float"], ["b", "bool"], ["s", "str"]]
F_ADV = [
    [[1, 1, 5, 2.5, True, "a"], [2, 1, None, -0.5, None, "b"], [3, None, 2, None, False, "a"],
     [4, 2, 2, 1.0, True, None], [5, None, None, 0.25, False, "b"]],
    [[1, 2, 3, 1.5, True, "b"], [2, 2, 3, 1.5, True, "b"], [3, 1, 1, -2.0, None, "a"]],
    [],
    [[1, None, None, None, None, None]],
]
F_U = [[7, 1, 5, 2.5, True, "a"], [8, None, 2, None, None, "a"], [1, 1, 5, 2.5, True, "a"]]


def full_world(t_rows, r_rows=ADV_R, u_rows=F_U):
    return {"tables": {
        "T": {"cols": F_COLS, "rows": t_rows},
        "R": {"cols": R_COLS, "rows": r_rows},
        "U": {"cols": F_COLS, "rows": u_rows},
    }}


def full_alphabet(st=None, hist=None, *, with_alias=True):
    T = "T"
    kT = col(T, "k")
    ev = [
        # element-wise
        ["filter", [["gt", col(T, "x"), lit(1)]]],
        ["mutate", [["y", ["add", ["mul", col(T, "x"), lit(2)], col(T, "g")]]]],
        ["mutate", [["x", ["add", Cn("x"), lit(1)]]]],
        ["select", [Cn("k"), Cn("x"), Cn("g")]],
        ["arrange", [kT]],
        ["slice_head", 2, 0],
        ["group_by", [col(T, "g")]],
        ["summarize", [["n", ["count_star"]], ["sx", ["sum", col(T, "x")]]]],
        ["mutate", [["m", ["sum", col(T, "x")]]]],  # aggregate as window (grouping-aware)
        ["mutate", [["r", ["row_number", {"arrange": [kT]}]]]],
        ["join", {"src": "R"}, "inner", [["eq", kT, col("R", "k")]]],
        ["union", {"src": "U"}, False],
        ["alias"],
        ["ungroup"],
        ["filter", [Cn("b")]],
        ["filter", [["gt", Cn("m"), lit(4)]]],  # on a window column (if there is one)
        ["mutate", [["p", ["and", ["gt", col(T, "x"), lit(1)], col(T, "b")]]]],
        ["mutate", [["c", ["case", [[["gt", col(T, "x"), lit(2)], lit("hi")]], col(T, "s")]]]],
        ["mutate", [["z", ["cast", col(T, "f"), "int"]], ["q", ["truediv", col(T, "x"), lit(2)]]]],
        ["mutate", [["sh", ["shift", col(T, "x"), 1, None, {"arrange": [kT]}]]]],
        ["mutate", [["rk", ["rank", {"arrange": [["nulls_last", col(T, "x")]]}]]]],
        ["mutate", [["m2", ["max", col(T, "x"), {"partition_by": [col(T, "g")]}]]]],
        ["arrange", [["desc", ["nulls_last", col(T, "x")]], kT]],
        ["slice_head", 2, 1],
        ["group_by", [col(T, "b")]],
        ["summarize", [["mf", ["max", col(T, "f")]], ["c", ["count", col(T, "x")]]]],
        ["join", {"src": "R"}, "left", [["eq", kT, col("R", "k")]]],
        ["join", {"src": "R"}, "full", [["eq", kT, col("R", "k")]]],
        ["union", {"src": "U"}, True],
        ["drop", [col(T, "s")]],
        ["rename", [["x", "xx"]]],
        ["rename", [[col(T, "g"), "x"], [col(T, "x"), "g"]]],
        ["filter", [["eq", Cn("n"), lit(1)]]],  # on an aggregate column (if there is one)
        ["mutate", [["w2", ["add", Cn("m"), lit(1)]]]],  # reads a window column
        # two window functions that take their order from the table (no arrange=)
        ["mutate", [["l1", ["shift", col(T, "x"), 1, None]], ["l2", ["row_number"]]]],
        # partitioned window functions ordered by a descending key with an explicit null position
        ["mutate", [["pr", ["rank", {"partition_by": [col(T, "g")], "arrange": [["desc", ["nulls_first", col(T, "x")]]]}]],
                    ["ps", ["shift", col(T, "x"), 1, None, {"partition_by": [col(T, "g")], "arrange": [["desc", ["nulls_first", col(T, "x")]], kT]}]]]],
        ["join", {"src": "R"}, "left", [["and", ["eq", kT, col("R", "k")], ["gt", col(T, "x"), lit(2)]]]],  # equality + inequality
        ["mutate", [["hm", ["hmax", col(T, "g"), col(T, "x"), kT]], ["hn", ["hmin", col(T, "x"), col(T, "g"), lit(3)]]]],  # row-wise max / min of three
        ["slice_head", 5, 3],  # (after slice_head(2): an offset beyond the rows that are left)
        # the filter of the right operand of an inner join ends up in the WHERE clause of the join
        ["join", {"src": "U", "hist": [["filter", [["gt", col("U", "x"), lit(2)]]]]}, "inner", [["eq", kT, col("U", "k")]]],
        ["select", [Cn("g"), Cn("x")]],  # hides k (e.g. the column the table is ordered by)
        ["select", [Cn("s"), Cn("b"), Cn("f"), Cn("x"), Cn("g"), Cn("k")]],  # a pure permutation of all columns
    ]
    if not with_alias:
        ev = [e for e in ev if e[0] != "alias"]
    return ev
