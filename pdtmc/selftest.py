"""Self-test of the reference model's scalar semantics (truth tables transcribed from
the operator documentation) - run by MANIFEST.setup_cmd."""

from __future__ import annotations

import sys

from . import refmodel as M


def main():
    b = M.s_binop
    T, F, N = True, False, None
    # Kleene logic (docs of & | ^)
    assert [b("and", x, y) for x in (T, F, N) for y in (T, F, N)] == [T, F, N, F, F, F, N, F, N]
    assert [b("or", x, y) for x in (T, F, N) for y in (T, F, N)] == [T, T, T, T, F, N, T, N, N]
    assert [b("xor", x, y) for x in (T, F, N) for y in (T, F, N)] == [F, T, N, T, F, N, N, N, N]
    # // truncates toward zero, % takes the sign of the dividend (docs of floordiv / mod)
    assert [b("floordiv", x, y) for x, y in ((7, 2), (-7, 2), (7, -2), (-7, -2), (0, 5))] == [3, -3, -3, 3, 0]
    assert [b("mod", x, y) for x, y in ((7, 2), (-7, 2), (7, -2), (-7, -2), (6, 3))] == [1, -1, 1, -1, 0]
    assert b("truediv", 7, 2) == 3.5 and b("add", None, 1) is None and b("eq", None, None) is None
    assert b("add", True, True) == 2 and b("add", "a", "b") == "ab"
    for op in ("truediv", "floordiv", "mod"):
        try:
            b(op, 1, 0)
        except M.Disabled:
            pass
        else:
            raise AssertionError(op)
    # casts
    assert M.s_cast(-2.75, "int") == -2 and M.s_cast(2.75, "int") == 2 and M.s_cast(True, "int") == 1
    assert M.s_cast(" 007", "int") == 7 and M.s_cast("-0.25", "float") == -0.25
    assert M.s_cast(2.5, "str") == "2.5" and M.s_cast(-7, "str") == "-7"
    import datetime as dt

    assert M.s_cast(dt.datetime(1999, 12, 31, 23, 59, 59), "date") == dt.date(1999, 12, 31)
    assert M.s_cast(dt.date(2020, 1, 2), "datetime") == dt.datetime(2020, 1, 2)
    assert M.s_cast(dt.datetime(2020, 1, 2, 3, 4, 5, 6), "str") == "2020-01-02 03:04:05.000006"
    # aggregates ignore nulls
    assert M._agg_value("sum", [None, 1, 2], 3) == 3 and M._agg_value("sum", [None], 1) is None
    assert M._agg_value("count", [None, None], 2) == 0 and M._agg_value("count_star", None, 0) == 0
    assert M._agg_value("mean", [1, 2, None], 3) == 1.5 and M._agg_value("any", [None, False], 2) is False
    print("pdtmc selftest ok")
    return 0


if __name__ == "__main__":
    sys.exit(main())
