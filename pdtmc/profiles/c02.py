"""C02 - single-table row-level verbs compute their documented meaning.

Exhaustive enumeration of all histories over the row-preserving alphabet up to the depth
bound, on adversarial inputs, each state compared with the reference model on each
backend separately (DESIGN.md section 6, C02)."""

from __future__ import annotations

from .. import explore as X
from . import base
from .common import Cn, adv_worlds, col, lit, rows_upto, world

PROPERTY = "C02"

DEPTH = {"quick": 3, "thorough": 4}


def worlds(tier):
    """-> list of (world, depth)"""
    ws = [(w, DEPTH[tier]) for w in adv_worlds(3)]
    if tier == "thorough":
        # every table with exactly 2 rows over g,x in {null,1,2}, s in {null,"a"}; unique id k
        for rows in rows_upto([[None, 1, 2], [None, 1, 2], [None, "a"]], 2, with_id=True):
            if len(rows) == 2:
                ws.append((world(rows), 3))
    return ws


def alphabet(st, hist):
    """the menu, simplest first; events that reference columns not in scope stay in the
    menu - the model then predicts the documented rejection, which is checked too."""
    T = "T"
    ev = []
    # filter
    ev.append(["filter", [["gt", col(T, "x"), lit(1)]]])
    ev.append(["filter", [["ge", Cn("x"), lit(2)], ["eq", col(T, "g"), lit(1)]]])
    ev.append(["filter", [["is_null", col(T, "g")]]])
    ev.append(["filter", [["or", ["lt", col(T, "x"), lit(3)], ["eq", col(T, "s"), lit("b")]]]])
    # mutate
    ev.append(["mutate", [["y", ["add", col(T, "x"), lit(1)]]]])
    ev.append(["mutate", [["x", ["mul", col(T, "x"), lit(2)]]]])  # overwrite, src ref
    ev.append(["mutate", [["k", ["add", Cn("k"), lit(10)]]]])  # overwrite first column via C
    ev.append(["mutate", [["x", ["add", Cn("x"), lit(1)]], ["z", ["add", Cn("x"), lit(10)]]]])  # z reads old x
    ev.append(["mutate", [["s", ["fill_null", col(T, "s"), lit("-")]], ["n", ["is_null", Cn("s")]]]])
    ev.append(["mutate", [["y", ["sub", Cn("x"), col(T, "g")]]]])
    # select / drop / rename
    ev.append(["select", [Cn("k"), Cn("x")]])
    ev.append(["select", [col(T, "x"), col(T, "k"), col(T, "g")]])  # reorder
    ev.append(["select", []])
    ev.append(["drop", [col(T, "g")]])
    ev.append(["drop", [Cn("x"), Cn("s")]])
    ev.append(["rename", [["x", "xx"]]])
    ev.append(["rename", [[col(T, "g"), "x"], [col(T, "x"), "g"]]])  # swap
    ev.append(["rename", [["k", "x"]]])  # onto an existing / hidden name
    # order and slices
    ev.append(["arrange", [col(T, "k")]])
    ev.append(["arrange", [["desc", ["nulls_last", col(T, "x")]], ["desc", col(T, "k")]]])
    ev.append(["arrange", [["nulls_first", Cn("g")], Cn("k")]])
    for n, off in ((2, 0), (1, 1), (0, 0), (5, 3), (2, 2)):
        ev.append(["slice_head", n, off])
    # no-data verbs
    ev.append(["group_by", [col(T, "g")]])
    ev.append(["ungroup"])
    ev.append(["alias"])
    if len(hist) >= 2:
        # a reference taken from the table after the first event (disabled by the model
        # when that table has no visible column x)
        ev.append(["mutate", [["w", ["add", ["col", "at", 1, "x"], col(T, "x")]]]])
    return ev


N_EVENTS = 31  # upper bound of the menu size at the root (task splitting only)


def make_explorer(world, depth=3):
    return X.Explorer(
        world,
        alphabet=alphabet,
        checks=[],
        depth=depth,
        oracle="model",
        names="set",
        model_kw={"order_rule": "portable"},
    )


def tasks(tier):
    out = []
    for wi, (w, d) in enumerate(worlds(tier)):
        if d >= 4:
            out += [{"world": wi, "first": [i]} for i in range(N_EVENTS)]
        else:
            out += [{"world": wi, "first": list(range(i, i + 8))} for i in range(0, N_EVENTS, 8)]
    return out


def run_task(task, tier):
    w, d = worlds(tier)[task["world"]]
    return base.run_history_task(lambda ww: make_explorer(ww, d), w, [["source", "T"]], task["first"],
                                 params={"depth": d})


def recheck(rec):
    d = (rec.get("params") or {}).get("depth", 3)
    return base.recheck_history(lambda ww: make_explorer(ww, d), rec)


def describe(tier):
    sample_alpha = alphabet(None, [["source", "T"], ["x"]])
    from .. import terms as T

    return {
        "alphabet": [T.py_event(e) for e in sample_alpha],
        "alphabet_size": len(sample_alpha),
        "depth": DEPTH[tier],
        "input_family": "ADV (3 tables: 5 rows with nulls/dups, 3 rows with ties, empty)" + (
            " + all tables with exactly 2 rows over g,x in {null,1,2}, s in {null,'a'} at depth 3" if tier == "thorough" else ""),
        "n_worlds": len(worlds(tier)),
        "backends": list(X.W.BACKENDS),
        "oracle": "reference model per backend: visible name set, data by name, row count, row sequence where determined",
        "regime": "tree (every history executed; no state merging)",
        "assumptions": [
            "reference model (pdtmc/refmodel.py) transcribes the documented verb semantics",
            "SQLite 3.40 and polars engines are trusted",
            "values restricted to the documented domain (DESIGN.md section 4)",
        ],
    }
