"""C09 - column references denote columns, not names.

A pool of references (``T.x`` of every source column, and a reference of every visible
column of every intermediate table) is part of the explored state.  After *every* state
and for *every* pooled reference the reference model says either "denotes column c,
currently named n / hidden" or "dead"; this is probed on the real library by
``state >> mutate(probe=ref)`` (data of c, or ColumnNotFoundError), by
``state[ref].name`` (n, or ColumnNotFoundError) and by ``C.n`` for every visible name."""

from __future__ import annotations

import warnings

from .. import explore as X
from .. import impl as I
from .. import refmodel as M
from .. import terms as T
from . import base
from .common import Cn, lit

PROPERTY = "C09"
DEPTH = {"quick": 3, "thorough": 4}

WORLDS = [
    {"tables": {"T": {"cols": [["k", "int"], ["x", "int"], ["y", "int"]], "rows": [[1, 10, 100], [2, 20, 200], [3, 30, 300]]},
                "R": {"cols": [["k", "int"], ["x", "int"]], "rows": [[1, 7], [3, 9], [4, 5]]},
                "Q": {"cols": [["k_right", "int"], ["q", "int"]], "rows": [[100, 1], [200, 2], [300, 5]]}}},
    {"tables": {"T": {"cols": [["k", "int"], ["x", "int"], ["y", "int"]], "rows": [[1, None, 100], [2, 20, None]]},
                "R": {"cols": [["k", "int"], ["x", "int"]], "rows": [[2, 8]]},
                "Q": {"cols": [["k_right", "int"], ["q", "int"]], "rows": [[100, 2]]}}},
]


def src(t, n):
    return ["col", "src", t, n]


ALPHABET = [
    ["rename", [["x", "xx"]]],
    ["rename", [[src("T", "x"), "y"], [src("T", "y"), "x"]]],  # swap
    ["select", [Cn("k"), Cn("x")]],
    ["select", [src("T", "x"), src("T", "k")]],  # by (possibly stale) table references, reordering
    ["drop", [src("T", "y")]],
    ["mutate", [["x", ["add", src("T", "x"), lit(1)]]]],  # overwrite x
    ["mutate", [["x", ["mul", Cn("y"), lit(2)]]]],  # re-create the name x with different data
    ["mutate", [["x", ["mod", src("T", "k"), lit(2)]]]],  # x re-created with ties
    # the new column named x and the hidden original T.x in one ordering: two different columns with one name
    ["arrange", [Cn("x"), ["desc", src("T", "x")]]],
    ["rename", [["y", "x"]]],  # onto the name of a hidden column (if x is hidden) - else rejected
    ["arrange", [["desc", src("T", "k")]]],
    ["filter", [["ge", src("T", "k"), lit(2)]]],
    ["join", {"src": "R"}, "left", [["eq", src("T", "k"), src("R", "k")]]],  # suffixes k and x of R
    ["join", {"src": "R"}, "inner", [["eq", Cn("y"), src("R", "x")]]],
    # equality and inequality: R.k of a left row without a partner is null, not the value of T.k
    ["join", {"src": "R"}, "left", [["and", ["eq", src("T", "k"), src("R", "k")], ["gt", src("T", "y"), ["mul", src("R", "x"), lit(20)]]]]],
    # a table whose column name looks like a name the polars backend may use internally
    ["join", {"src": "Q"}, "left", [["lt", src("T", "k"), src("Q", "q")]]],
    ["join", {"src": "Q"}, "inner", [["eq", src("T", "k"), src("Q", "q")]]],
    ["join", {"src": "T", "hist": [["group_by", [src("T", "k")]], ["summarize", [["m", ["max", src("T", "y")]]]], ["alias"]]}, "left",
     [["eq", src("T", "k"), ["col", "right", "k"]]]],  # the right operand dropped x and y: T.x / T.y must keep denoting the left columns
    ["alias", None, True],
    ["alias"],
    ["collect"],
    ["collect", False],
    ["summarize", [["s", ["sum", src("T", "x")]]]],
    ["group_by", [Cn("k")]],
    ["summarize", [["m", ["max", Cn("y")]]]],
]


def alphabet(st, hist):
    return ALPHABET


def pool(hist, mstates):
    """reference terms valid to *create* in this history"""
    refs = [src("T", c) for c in ("k", "x", "y")]
    if any(e[0] == "join" and e[1].get("src") == "R" for e in hist[1:]):
        refs += [src("R", "k"), src("R", "x")]
    if any(e[0] == "join" and e[1].get("src") == "Q" for e in hist[1:]):
        refs += [src("Q", "k_right"), src("Q", "q")]
    for i, st in enumerate(mstates):
        if i == 0 or isinstance(st, M.Reject):
            continue
        for n in st.names():
            refs.append(["col", "at", i, n])
    return refs


def probes(ex, hist, mstates):
    out = [["mutate", [["probe", r]]] for r in pool(hist, mstates)]
    st = mstates[-1]
    for n in st.names():
        out.append(["mutate", [["probe", Cn(n)]]])
    out.append(["mutate", [["probe", Cn("nosuchcolumn")]]])
    return out


def check_getitem(step):
    """state[ref].name reports the current name of the column ref denotes"""
    vs = []
    mres = step.mres
    if isinstance(mres, M.Reject):
        return vs
    mstates = step.mstates + [mres]
    menv = M.Env(mres, mstates, mode="mutate", model=step.explorer.model)
    for b, o in step.obs.items():
        if o.status != "ok":
            continue
        ctx = step.ctxs[b]
        tmp = I.Ctx(ctx.built, ctx.pool)
        tmp.tables = ctx.tables + [o.table]
        for r in pool(step.hist, mstates):
            try:
                cid = menv.resolve(r)
                expected = mres.cols[cid] if cid in mres.visible else "ColumnNotFoundError"
            except M.Reject:
                expected = "ColumnNotFoundError"
            except M.Disabled:
                continue
            step.explorer.stats["getitem_probes"] += 1
            with warnings.catch_warnings():
                warnings.simplefilter("ignore")
                try:
                    col = I.build_expr(r, tmp)
                except Exception:  # noqa: BLE001
                    continue
                try:
                    got = o.table[col].name
                    also_in = col in o.table
                except Exception as e:  # noqa: BLE001
                    got = type(e).__name__
                    also_in = False
            if got != expected:
                vs.append(X.violation(step, "getitem-name", b, "wrong-name" if expected != "ColumnNotFoundError" and not got.endswith("Error") else f"got:{got if got.endswith('Error') else 'name'}",
                                      {"ref": T.py_expr(r), "expected": expected, "observed": got}))
            elif (expected != "ColumnNotFoundError") != also_in:
                vs.append(X.violation(step, "contains", b, "wrong-membership", {"ref": T.py_expr(r), "expected": expected}))
    return vs


def make_explorer(world, depth=3):
    return X.Explorer(world, alphabet=alphabet, checks=[check_getitem], depth=depth, oracle="model", names="list",
                      probes=probes)


def tasks(tier):
    out = []
    for wi in range(len(WORLDS)):
        if tier == "thorough" and wi > 0:
            continue
        out += [{"world": wi, "first": [i]} for i in range(len(ALPHABET))]
    return out


def run_task(task, tier):
    d = DEPTH[tier]
    return base.run_history_task(lambda ww: make_explorer(ww, d), WORLDS[task["world"]], [["source", "T"]], task["first"],
                                 params={"depth": d})


def recheck(rec):
    d = (rec.get("params") or {}).get("depth", 3)
    return base.recheck_history(lambda ww: make_explorer(ww, d), rec)


def describe(tier):
    return {
        "alphabet": [T.py_event(e) for e in ALPHABET],
        "alphabet_size": len(ALPHABET),
        "depth": DEPTH[tier],
        "reference_pool": "T.k, T.x, T.y (R.k, R.x after a join) and <table after event i>.<name> for every visible column of every intermediate table",
        "probes_per_state": "mutate(probe=ref) for every pooled reference and for C.<name> of every visible name (+ an unknown name); state[ref].name and `ref in state` for every pooled reference",
        "input_family": "tables whose columns hold pairwise different data (so that a probe identifies the column); 2 worlds in quick (one with nulls), 1 in thorough",
        "backends": ["polars", "sqlite"],
        "oracle": "reference model of column identity: a reference denotes the same data through rename/select/drop/overwrite/arrange/filter/join/alias(keep)/collect (visible), is dead after summarize/alias()/collect(keep_col_refs=False) -> ColumnNotFoundError; C.x denotes the current carrier of the name",
        "regime": "tree",
        "assumptions": ["reference model", "engines trusted"],
    }
