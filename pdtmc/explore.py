"""Exhaustive exploration of verb histories on the real library against the reference
model (DESIGN.md section 2).

``Explorer.subtree(root)`` enumerates *every* history that extends ``root`` by events of
the alphabet up to the depth bound, executes each one on every backend, and applies the
profile's checks to every state reached.  A history is not extended after a violation,
a documented rejection or (on that backend) a permitted SQL refusal.
"""

from __future__ import annotations

import json
import warnings
import zlib
from collections import Counter

import pydiverse.transform as pdt

from . import compare as C
from . import impl as I
from . import refmodel as M
from . import terms as T
from . import world as W

PERMITTED_SQL_REFUSALS = ("SubqueryError", "NotSupportedError")
INTERNAL_ERRORS = (
    "AssertionError", "KeyError", "IndexError", "AttributeError", "NotImplementedError",
    "RecursionError", "UnboundLocalError",
)


def exc_names(e) -> list[str]:
    return [c.__name__ for c in type(e).__mro__]


def exc_is(e, name: str) -> bool:
    return name in exc_names(e)


def exc_label(e) -> str:
    mod = type(e).__module__ or ""
    n = type(e).__name__
    if mod.startswith("polars"):
        return f"polars.{n}"
    if mod.startswith("sqlalchemy"):
        return f"sqlalchemy.{n}"
    if mod.startswith("sqlite3"):
        return f"sqlite3.{n}"
    return n


class Observation:
    """What one backend shows for one state."""

    __slots__ = ("status", "exc", "names", "rows", "table", "where", "df")

    def __init__(self):
        self.status = None  # ok | verb-exc | export-exc | refused
        self.exc = None
        self.names = None
        self.rows = None
        self.table = None
        self.where = None
        self.df = None


class Step:
    """Everything a checker may look at for one transition."""

    __slots__ = ("world", "hist", "event", "mstates", "mres", "obs", "explorer", "parents", "ctxs")

    def __init__(self, world, hist, event, mstates, mres, obs, explorer, parents=None, ctxs=None):
        self.parents = parents or {}
        self.ctxs = ctxs or {}
        self.world = world
        self.hist = hist  # including ``event``
        self.event = event
        self.mstates = mstates  # model states of the prefix (before the event)
        self.mres = mres  # MState | M.Reject
        self.obs = obs  # backend -> Observation
        self.explorer = explorer


def violation(step: Step, invariant, backend, symptom, detail=None):
    return {
        "invariant": invariant,
        "backend": backend,
        "symptom": symptom,
        "world": step.world,
        "history": step.hist,
        "detail": detail or {},
    }


class Explorer:
    def __init__(self, world, *, alphabet, checks, backends=W.BACKENDS, depth=3, model_kw=None,
                 oracle="model", names="list", observe=None, limit_children=None,
                 expect_polars_accepts=True, probes=None, size=None):
        self.world = world
        self.alphabet = alphabet  # fn(mstate, hist) -> iterable of events
        self.checks = checks  # list of fn(step) -> list of violations
        self.backends = backends
        self.depth = depth
        self.model = M.Model(world, **(model_kw or {}))
        self.oracle = oracle  # model | differential | both | none
        self.names = names  # list | set
        self.observe = observe
        self.expect_polars_accepts = expect_polars_accepts
        # probes(explorer, hist, mstates) -> events executed once on every accepted state
        # (checked like any other event, never extended)
        self.probes = probes
        # size(hist) -> what the depth bound counts (default: number of events)
        self.size = size or (lambda hist: len(hist) - 1)
        self.built = {b: W.build(world, b) for b in backends}
        self.stats = Counter()
        self.outcomes = Counter()
        self.violations = []
        self.samples = []
        self.level_counts = Counter()

    def close(self):
        for b in self.built.values():
            b.close()

    # ---------------------------------------------------------------------------------
    def replay_prefix(self, hist):
        """model states and per-backend contexts for an (accepted) prefix history"""
        mstates = self.model.run(hist)
        ctxs = {}
        for b in self.backends:
            try:
                ctxs[b] = I.run_history(self.built[b], hist)
            except I.StepError as se:
                if b != "polars" and any(exc_is(se.exc, n) for n in PERMITTED_SQL_REFUSALS):
                    ctxs[b] = None
                else:
                    raise
        return mstates, ctxs

    def subtree(self, root, only_first=None):
        """explore all extensions of ``root``; ``only_first`` restricts the first event
        to the given indices of the alphabet (used to split work between workers)"""
        mstates, ctxs = self.replay_prefix(root)
        self._dfs(list(root), mstates, ctxs, only_first)

    def _dfs(self, hist, mstates, ctxs, only_first=None):
        events = [ev for ev in self.alphabet(mstates[-1], hist) if self.size(hist + [ev]) <= self.depth]
        for idx, ev in enumerate(events):
            if only_first is not None and idx not in only_first:
                continue
            ok, mres, new_ctx_tables = self.transition(hist, mstates, ctxs, ev)
            if not ok:
                continue
            # extend
            hist.append(ev)
            mstates.append(mres)
            pushed = []
            sub_ctxs = dict(ctxs)
            for b, tbl in new_ctx_tables.items():
                if tbl is None:
                    sub_ctxs[b] = None
                else:
                    ctxs[b].tables.append(tbl)
                    pushed.append(b)
            if self.probes is not None:
                for pev in self.probes(self, hist, mstates):
                    self.stats["probes"] += 1
                    self.transition(hist, mstates, sub_ctxs, pev)
            self._dfs(hist, mstates, sub_ctxs)
            for b in pushed:
                ctxs[b].tables.pop()
            mstates.pop()
            hist.pop()

    def transition(self, hist, mstates, ctxs, ev):
        """execute one event after ``hist``; returns (extend?, model result, tables)"""
        self.stats["events_generated"] += 1
        try:
            mres = self.model.step(mstates, ev)
        except M.Disabled as d:
            self.stats["disabled_by_domain"] += 1
            self.outcomes["disabled:" + str(d).split(":")[0][:40]] += 1
            return False, None, None
        except M.Reject as r:
            mres = r
        obs = {}
        new_tables = {}
        with warnings.catch_warnings():
            warnings.simplefilter("ignore")
            for b in self.backends:
                ctx = ctxs.get(b)
                if ctx is None:
                    continue
                o = Observation()
                obs[b] = o
                self.stats["transitions"] += 1
                try:
                    o.table = I.apply_event(ctx.tables[-1], ev, ctx)
                except I.NotApplicable as e:
                    o.exc, o.where, o.status = e, "verb", "refused"
                    self.stats[f"not_applicable:{b}:{ev[0]}"] += 1
                    continue
                except Exception as e:  # noqa: BLE001
                    o.exc = e
                    o.where = "verb"
                    if (b != "polars" and not isinstance(mres, M.Reject)
                            and any(exc_is(e, n) for n in PERMITTED_SQL_REFUSALS)):
                        o.status = "refused"
                        self.stats[f"refused:{b}:{type(e).__name__}"] += 1
                    else:
                        o.status = "verb-exc"
                    continue
                if not isinstance(mres, M.Reject) and not mres.visible:
                    # a table without visible columns cannot be exported (DESIGN 4.11):
                    # the state is kept and extended, only its observation is skipped
                    o.status, o.names, o.rows = "ok", [], None
                    self.stats["unobservable_zero_columns"] += 1
                    continue
                try:
                    if self.observe is not None:
                        self.observe(o, b, self)
                    else:
                        df = o.table >> pdt.export(pdt.Polars())
                        o.df = df
                        o.names = list(df.columns)
                        o.rows = C.frame_rows(df)
                    o.status = "ok"
                except Exception as e:  # noqa: BLE001
                    o.exc = e
                    o.where = "export"
                    if b != "polars" and exc_is(e, "NotSupportedError") and not isinstance(mres, M.Reject):
                        o.status = "refused"
                        self.stats[f"refused:{b}:NotSupportedError@export"] += 1
                    else:
                        o.status = "export-exc"
        full = hist + [ev]
        step = Step(self.world, full, ev, mstates, mres, obs, self,
                    parents={b: c.tables[-1] for b, c in ctxs.items() if c is not None}, ctxs=ctxs)
        vs = self.standard_checks(step)
        for chk in self.checks:
            vs.extend(chk(step))
        self.stats["states"] += 1
        self.level_counts[len(full) - 1] += 1
        self.stats["traces_validated"] += sum(1 for o in obs.values() if o.status in ("ok", "verb-exc", "export-exc"))
        # outcome bookkeeping (vacuity guard)
        for b, o in obs.items():
            if o.status == "ok" and o.rows is None:
                self.outcomes[f"{b}:zero-columns"] += 1
            elif o.status == "ok":
                self.outcomes[f"{b}:frame:{zlib.crc32(json.dumps([o.names, C.rows_json(o.rows)], sort_keys=True, default=str).encode()):08x}"] += 1
            else:
                self.outcomes[f"{b}:{o.status}:{exc_label(o.exc)}"] += 1
        if len(self.samples) < 4 and not vs and any(o.status == "ok" for o in obs.values()):
            if len(full) - 1 == min(self.depth, 2 + len(self.samples) % 2):
                self.samples.append(self.sample_of(step))
        if vs:
            self.violations.extend(vs)
            return False, mres, None
        if isinstance(mres, M.Reject):
            self.stats["rejected_as_documented"] += 1
            return False, mres, None
        tables = {}
        any_ok = False
        for b in self.backends:
            if ctxs.get(b) is None:
                continue
            o = obs[b]
            if o.status == "ok":
                tables[b] = o.table
                any_ok = True
            else:
                tables[b] = None
        if not any_ok:
            return False, mres, None
        self.stats["accepted_and_exported"] += 1
        return True, mres, tables

    def sample_of(self, step):
        return {
            "history": T.py_history(step.hist),
            "input": {n: t["rows"] for n, t in step.world["tables"].items()},
            "model": None if isinstance(step.mres, M.Reject) else {"names": step.mres.names(), "rows": C.rows_json(step.mres.frame_rows())},
            "backends": {
                b: ({"names": o.names, "rows": C.rows_json(o.rows or [])} if o.status == "ok" else f"{o.status}:{exc_label(o.exc)}")
                for b, o in step.obs.items()
            },
        }

    # ---------------------------------------------------------------------------------
    def standard_checks(self, step: Step):
        vs = []
        mres = step.mres
        for b, o in step.obs.items():
            if o.status == "refused":
                continue
            if isinstance(mres, M.Reject):
                if o.status == "verb-exc":
                    if not exc_is(o.exc, mres.exc_class):
                        vs.append(violation(step, "documented-rejection-class", b, f"exception:{exc_label(o.exc)}",
                                            {"expected": mres.exc_class, "message": str(o.exc)[:300]}))
                elif o.status in ("ok", "export-exc"):
                    vs.append(violation(step, "ill-formed-accepted", b,
                                        "accepted" if o.status == "ok" else f"late-exception:{exc_label(o.exc)}",
                                        {"expected": mres.exc_class, "why": mres.why}))
                continue
            if o.status == "verb-exc":
                vs.append(violation(step, "unexpected-rejection", b, f"exception:{exc_label(o.exc)}",
                                    {"message": str(o.exc)[:300]}))
                continue
            if o.status == "export-exc":
                vs.append(violation(step, "export-failed", b, f"exception:{exc_label(o.exc)}",
                                    {"message": str(o.exc)[:300]}))
                continue
        if isinstance(mres, M.Reject):
            return vs
        if self.oracle in ("model", "both"):
            for b, o in step.obs.items():
                if o.status != "ok" or o.rows is None:
                    continue
                sym = self.diff_model(mres, o, b)
                if sym:
                    vs.append(violation(step, "model-agreement", b, sym, {
                        "expected": {"names": mres.names(), "rows": C.rows_json(mres.frame_rows())},
                        "observed": {"names": o.names, "rows": C.rows_json(o.rows)},
                    }))
        if self.oracle in ("differential", "both"):
            po, so = step.obs.get("polars"), step.obs.get("sqlite")
            if (po is not None and so is not None and po.status == "ok" and so.status == "ok"
                    and po.rows is not None and so.rows is not None):
                ordered = self.model.seq_comparable(mres, "sqlite") and self.model.seq_comparable(mres, "polars")
                sym = C.diff_frames(po.names, po.rows, so.names, so.rows, ordered=ordered)
                if sym:
                    vs.append(violation(step, "polars-sql-agreement", "sqlite", sym, {
                        "polars": {"names": po.names, "rows": C.rows_json(po.rows)},
                        "sqlite": {"names": so.names, "rows": C.rows_json(so.rows)},
                        "ordered": ordered,
                    }))
        return vs

    def diff_model(self, mres, o, backend):
        ordered = self.model.seq_comparable(mres, backend)
        names = mres.names()
        pat = getattr(mres, "join_pattern", None)
        if pat is not None and names != o.names and len(names) == len(o.names):
            # the documentation does not fix *which* integer is appended: accept any
            # name list of the documented shape and continue with the observed names
            nleft = len(names) - len(pat)
            if o.names[:nleft] == names[:nleft] and pat.matches(o.names[nleft:]):
                for cid, nm in zip(mres.visible[nleft:], o.names[nleft:]):
                    mres.cols[cid] = nm
                names = mres.names()
        sym = C.diff_frames(names, mres.frame_rows(), o.names, o.rows, ordered=ordered,
                            names_as_set=(self.names == "set"))
        return sym


# --------------------------------------------------------------------------------------
# replay of a single history with the same checks (used by minimisation and pdtmc.replay)


def check_history(make_explorer, world, history):
    """Run ``history`` step by step through a fresh explorer; returns the violations of
    the first step that has any, together with the index of that step, or ([], None).
    Returns (None, None) if the history is not enabled in the model."""
    ex = make_explorer(world)
    try:
        ex.depth = len(history)  # no bound while replaying
        hist = [history[0]]
        try:
            mstates, ctxs = ex.replay_prefix(hist)
        except Exception:  # noqa: BLE001
            return None, None
        for i, ev in enumerate(history[1:], 1):
            before = len(ex.violations)
            n_dis = ex.stats["disabled_by_domain"]
            ok, mres, tables = ex.transition(hist, mstates, ctxs, ev)
            if ex.stats["disabled_by_domain"] != n_dis:
                return None, None
            if len(ex.violations) > before:
                return ex.violations[before:], i
            if not ok:
                return [], None
            hist.append(ev)
            mstates.append(mres)
            for b, tbl in tables.items():
                if tbl is None:
                    ctxs[b] = None
                else:
                    ctxs[b].tables.append(tbl)
        return [], None
    finally:
        ex.close()
