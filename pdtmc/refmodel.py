"""Reference model: the documented meaning of verbs and expressions, evaluated row by
row over plain python values (None, bool, int, float, str, date, datetime).

No polars, no SQL, no pydiverse import.  Shares only the term syntax with ``impl``.
See DESIGN.md section 3 and appendix B.
"""

from __future__ import annotations

import datetime as _dt
import math
from decimal import ROUND_HALF_UP, Decimal

from . import world as W


class Disabled(Exception):
    """The event is outside the documented domain / not generated on this state."""


class Reject(Exception):
    """The documented outcome of the event is a rejection with this exception class."""

    def __init__(self, exc_class: str, why: str = ""):
        super().__init__(f"{exc_class}: {why}")
        self.exc_class = exc_class
        self.why = why


class Scalar:
    __slots__ = ("v",)

    def __init__(self, v):
        self.v = v


# --------------------------------------------------------------------------------------
# scalar semantics


def _num(x):
    return isinstance(x, (int, float)) and not isinstance(x, bool)


def _as_num(x):
    return int(x) if isinstance(x, bool) else x


def _trunc_div(a, b):
    q = abs(a) // abs(b)
    return q if (a < 0) == (b < 0) else -q


def _trunc_mod(a, b):
    r = abs(a) % abs(b)
    return r if a >= 0 else -r


def _round_half_up(x, d):
    if isinstance(x, int) and not isinstance(x, bool):
        if d >= 0:
            return x
        q = Decimal(x).scaleb(d).quantize(Decimal(1), rounding=ROUND_HALF_UP)
        return int(q.scaleb(-d))
    q = Decimal(repr(x)).scaleb(d)
    frac = q - q.to_integral_value(rounding="ROUND_FLOOR")
    if frac == Decimal("0.5"):
        raise Disabled("rounding tie")
    # binary near-ties: x*10^d within 1e-9 of n+1/2 are excluded as well
    if abs(float(frac) - 0.5) < 1e-9:
        raise Disabled("rounding near-tie")
    r = q.quantize(Decimal(1), rounding=ROUND_HALF_UP).scaleb(-d)
    return float(r)


def _cmp_ok(a, b):
    if _num(a) and _num(b):
        return True
    return type(a) is type(b)


def s_binop(op, a, b):
    if op in ("and", "or"):
        if op == "and":
            if a is False or b is False:
                return False
            if a is None or b is None:
                return None
            return True
        if a is True or b is True:
            return True
        if a is None or b is None:
            return None
        return False
    if a is None or b is None:
        return None
    if op == "xor":
        return a != b
    if op == "add":
        if isinstance(a, str):
            return a + b
        return _as_num(a) + _as_num(b)
    if op == "sub":
        return a - b
    if op == "mul":
        return a * b
    if op == "truediv":
        if b == 0:
            raise Disabled("division by zero")
        return a / b
    if op == "floordiv":
        if b == 0:
            raise Disabled("division by zero")
        return _trunc_div(a, b)
    if op == "mod":
        if b == 0:
            raise Disabled("division by zero")
        return _trunc_mod(a, b)
    if op == "pow":
        if isinstance(b, int) and b < 0 and isinstance(a, int):
            raise Disabled("negative integer exponent")
        if a == 0 and b < 0:
            raise Disabled("0 ** negative")
        if a < 0 and isinstance(b, float) and not b.is_integer():
            raise Disabled("negative base, fractional exponent")
        return float(a) ** b
    if op == "eq":
        return a == b
    if op == "ne":
        return a != b
    if op == "lt":
        return a < b
    if op == "le":
        return a <= b
    if op == "gt":
        return a > b
    if op == "ge":
        return a >= b
    raise ValueError(op)


def s_cast(v, target):
    if v is None:
        return None
    if target.startswith(("int", "uint")):
        if isinstance(v, bool):
            return int(v)
        if isinstance(v, int):
            return v
        if isinstance(v, float):
            return int(v)  # truncates toward zero
        if isinstance(v, str):
            s = v.strip()
            try:
                return int(s)
            except ValueError:
                raise Disabled("string is not a plain integer numeral") from None
    if target.startswith("float"):
        if isinstance(v, bool):
            return float(v)
        if isinstance(v, (int, float)):
            return float(v)
        if isinstance(v, str):
            try:
                return float(v.strip())
            except ValueError:
                raise Disabled("string is not a numeral") from None
    if target == "str":
        if isinstance(v, bool):
            raise Reject("DataTypeError", "bool -> str is not in the cast table")
        if isinstance(v, int):
            return str(v)
        if isinstance(v, float):
            return repr(v)
        if isinstance(v, _dt.datetime):
            return v.strftime("%Y-%m-%d %H:%M:%S.%f")
        if isinstance(v, _dt.date):
            return v.isoformat()
        if isinstance(v, str):
            return v
    if target == "date":
        if isinstance(v, _dt.datetime):
            return v.date()
        if isinstance(v, _dt.date):
            return v
    if target == "datetime":
        if isinstance(v, _dt.datetime):
            return v
        if isinstance(v, _dt.date):
            return _dt.datetime(v.year, v.month, v.day)
    if target == "bool" and isinstance(v, bool):
        return v
    raise Reject("DataTypeError", f"cast {type(v).__name__} -> {target}")


# --------------------------------------------------------------------------------------
# state


class Col:
    __slots__ = ("cid", "name")

    def __init__(self, cid, name):
        self.cid = cid
        self.name = name


class MState:
    """Model state of one table."""

    __slots__ = (
        "cols", "visible", "rows", "group", "order_keys", "seq_defined", "origin",
        "tname", "n_new", "types", "join_pattern",
    )

    def __init__(self):
        self.cols: dict[str, str] = {}  # cid -> current/last name (all columns in scope)
        self.types: dict[str, str] = {}  # cid -> static type family
        self.visible: list[str] = []  # cids in export order
        self.rows: list[dict] = []  # cid -> value, in the deterministic (polars) order
        self.group: list[str] = []
        # accumulated arrange keys, highest priority first: (pseudo cid, desc, nulls_last)
        self.order_keys: list[tuple] = []
        # False once a verb with undocumented output order was applied (summarize, join,
        # union) and no arrange re-established an order
        self.seq_defined = True
        self.origin: frozenset = frozenset()
        self.tname = None
        self.n_new = 0
        self.join_pattern = None

    def copy(self) -> "MState":
        s = MState()
        s.cols = dict(self.cols)
        s.types = dict(self.types)
        s.visible = list(self.visible)
        s.rows = [dict(r) for r in self.rows]
        s.group = list(self.group)
        s.order_keys = list(self.order_keys)
        s.seq_defined = self.seq_defined
        s.origin = self.origin
        s.tname = self.tname
        s.n_new = self.n_new
        return s

    # -- observations ------------------------------------------------------------------
    def names(self) -> list[str]:
        return [self.cols[c] for c in self.visible]

    def name_to_cid(self, name):
        for c in self.visible:
            if self.cols[c] == name:
                return c
        return None

    def hidden(self) -> list[str]:
        vis = set(self.visible)
        return [c for c in self.cols if c not in vis and not c.startswith("#")]

    def frame_rows(self) -> list[tuple]:
        return [tuple(r[c] for c in self.visible) for r in self.rows]

    def order_total(self) -> bool:
        """Is the row sequence determined by the accumulated arrange keys alone, with
        specified null placement (DESIGN section 3, order bookkeeping)?"""
        if len(self.rows) <= 1:
            return True
        if not self.order_keys:
            return False
        seen = set()
        for r in self.rows:
            key = tuple(_hashable(r[k]) for k, _, _ in self.order_keys)
            if key in seen:
                return False
            seen.add(key)
        for k, _, nl in self.order_keys:
            if nl is None and any(r[k] is None for r in self.rows):
                return False
        return True

    def new_cid(self, tag):
        self.n_new += 1
        return f"{tag}{self.n_new}"


def _hashable(v):
    if isinstance(v, bool):
        return ("b", v)
    if isinstance(v, float) and v.is_integer():
        return int(v)
    return v


def source_state(world, name) -> MState:
    t = world["tables"][name]
    s = MState()
    s.tname = name
    s.origin = frozenset([name])
    for cn, ty in t["cols"]:
        cid = f"{name}.{cn}"
        s.cols[cid] = cn
        s.types[cid] = family(ty)
        s.visible.append(cid)
    cids = list(s.visible)
    for row in W.table_rows(t):
        s.rows.append(dict(zip(cids, row)))
    return s


# --------------------------------------------------------------------------------------
# expression evaluation

AGGS = ("sum", "mean", "min", "max", "any", "all", "count", "count_star")
WINDOWS = ("row_number", "rank", "dense_rank", "shift", "cum_sum")
ORDER_SENSITIVE = ("row_number", "shift", "cum_sum")
BIN = ("add", "sub", "mul", "truediv", "floordiv", "mod", "pow", "eq", "ne", "lt", "le", "gt", "ge", "and", "or", "xor")


def children(t):
    """direct sub-expression terms of an expression term (context arguments included,
    ordering markers peeled)"""
    h = t[0]
    if h in ("lit", "col", "pool"):
        return []
    out = []
    if h == "case":
        for c, v in t[1]:
            out += [c, v]
        if len(t) > 2 and t[2] is not None:
            out.append(t[2])
        return out
    if h == "map":
        out.append(t[1])
        for key, val in t[2]:
            out += key[1:] if (isinstance(key, list) and key and key[0] == "tuple") else [key]
            out.append(val)
        if len(t) > 3 and t[3] is not None:
            out.append(t[3])
        return out
    for a in t[1:]:
        if isinstance(a, list) and a and isinstance(a[0], str):
            out.append(a)
        elif isinstance(a, dict):
            for key, vs in a.items():
                if key in ("partition_by", "filter"):
                    out += list(vs)
                elif key == "arrange":
                    out += [_order_spec(o)[0] for o in vs]
    return out


def subterms(t):
    """all expression terms in the subtree (preorder)"""
    yield t
    for c in children(t):
        yield from subterms(c)


def term_heads(t):
    """all operator heads occurring in an expression term"""
    t = _order_spec(t)[0]
    return [s[0] for s in subterms(t)]


def term_has_window(t, mode="mutate"):
    hs = term_heads(t)
    if any(h in WINDOWS for h in hs):
        return True
    return mode == "mutate" and any(h in AGGS for h in hs)


class Env:
    """Resolution environment for one verb call."""

    def __init__(self, state: MState, states, *, mode, right=None, right_states=None, model=None):
        self.state = state
        self.states = states  # model states after k events (for "at k")
        self.mode = mode  # mutate | summarize | filter | on | arrange
        self.right = right
        self.right_states = right_states
        self.model = model

    def resolve(self, t) -> str:
        """colref term -> cid in scope of the current state (or Reject)."""
        m = t[1]
        st = self.state
        if m == "src":
            cid = f"{t[2]}.{t[3]}"
            if cid in st.cols:
                return cid
            if self.right is not None and cid in self.right.cols:
                return cid
            raise Reject("ValueError" if self.mode == "on" else "ColumnNotFoundError", f"{cid} not in scope")
        if m in ("C", "str"):
            cid = st.name_to_cid(t[2])
            if self.right is not None:
                rcid = self.right.name_to_cid(t[2])
                if cid is not None and rcid is not None and self.mode == "on" and not getattr(self, "merged", False):
                    raise Reject("ValueError", f"C.{t[2]} is ambiguous in a join condition")
                if cid is None:
                    cid = rcid
            if cid is None:
                raise Reject("ValueError" if self.mode == "on" else "ColumnNotFoundError", f"no column named {t[2]}")
            return cid
        if m == "at":
            src = self.states[t[2]]
            cid = src.name_to_cid(t[3])
            if cid is None:
                raise Disabled(f"reference {t} cannot be created")
            if cid in st.cols:
                return cid
            if self.right is not None and cid in self.right.cols:
                return cid
            raise Reject("ValueError" if self.mode == "on" else "ColumnNotFoundError", f"{cid} not in scope")
        if m == "right":
            cid = self.right.name_to_cid(t[2])
            if cid is None:
                raise Disabled(f"reference {t} cannot be created")
            return cid
        if m == "rat":
            cid = self.right_states[t[2]].name_to_cid(t[3])
            if cid is None:
                raise Disabled(f"reference {t} cannot be created")
            if cid in self.right.cols:
                return cid
            raise Reject("ValueError", f"{cid} not in scope")
        raise ValueError(t)


def _bcast(v, n):
    return [v.v] * n if isinstance(v, Scalar) else v


def _lift(f, args, n):
    if all(isinstance(a, Scalar) for a in args):
        return Scalar(f(*(a.v for a in args)))
    cols = [_bcast(a, n) for a in args]
    return [f(*vals) for vals in zip(*cols)] if cols else [f() for _ in range(n)]


def _order_spec(t):
    """peel markers from the top of an order term -> (expr term, desc, nulls_last)"""
    desc = None
    nl = None
    while isinstance(t, list) and t and t[0] in ("desc", "asc", "nulls_first", "nulls_last"):
        if t[0] in ("desc", "asc") and desc is None:
            desc = t[0] == "desc"
        if t[0] in ("nulls_first", "nulls_last") and nl is None:
            nl = t[0] == "nulls_last"
        t = t[1]
    return t, bool(desc), nl


def sort_key_fn(specs):
    """specs: list of (values-getter index, desc, nulls_last) -> key function over tuples

    A null key without explicit placement must not occur (domain guard raises before)."""

    def key(vals):
        out = []
        for v, (desc, nl) in zip(vals, specs):
            if v is None:
                # nulls_last -> after everything, nulls_first -> before everything
                out.append((2 if nl else 0, 0))
            else:
                out.append((1, _Rev(v) if desc else _Fwd(v)))
        return tuple(out)

    return key


class _Fwd:
    __slots__ = ("v",)

    def __init__(self, v):
        self.v = _as_num(v) if isinstance(v, bool) else v

    def __lt__(self, o):
        return self.v < o.v

    def __eq__(self, o):
        return self.v == o.v

    def __hash__(self):
        return hash(self.v)


class _Rev(_Fwd):
    def __lt__(self, o):
        return self.v > o.v


def ev(t, rows, env: Env):
    """Evaluate expression term ``t`` over ``rows`` -> Scalar | list of values."""
    n = len(rows)
    h = t[0]
    if h == "lit":
        return Scalar(W.dec(t[1]))
    if h == "col":
        cid = env.resolve(t)
        return [r[cid] for r in rows]
    if h in BIN:
        a, b = ev(t[1], rows, env), ev(t[2], rows, env)
        return _lift(lambda x, y: s_binop(h, x, y), [a, b], n)
    if h == "neg":
        return _lift(lambda x: None if x is None else -x, [ev(t[1], rows, env)], n)
    if h == "pos":
        return ev(t[1], rows, env)
    if h == "invert":
        return _lift(lambda x: None if x is None else (not x), [ev(t[1], rows, env)], n)
    if h == "abs":
        return _lift(lambda x: None if x is None else abs(x), [ev(t[1], rows, env)], n)
    if h == "is_null":
        return _lift(lambda x: x is None, [ev(t[1], rows, env)], n)
    if h == "is_not_null":
        return _lift(lambda x: x is not None, [ev(t[1], rows, env)], n)
    if h in ("is_nan", "is_not_nan"):
        # null for null; the value domains contain no NaN (SQLite cannot store one)
        return _lift(lambda x: None if x is None else ((x != x) == (h == "is_nan")), [ev(t[1], rows, env)], n)
    if h == "floor":
        return _lift(lambda x: None if x is None else float(math.floor(x)), [ev(t[1], rows, env)], n)
    if h == "ceil":
        return _lift(lambda x: None if x is None else float(math.ceil(x)), [ev(t[1], rows, env)], n)
    if h == "fill_null":
        return _lift(lambda x, y: y if x is None else x, [ev(t[1], rows, env), ev(t[2], rows, env)], n)
    if h == "coalesce":
        return _lift(lambda *xs: next((x for x in xs if x is not None), None), [ev(a, rows, env) for a in t[1:]], n)
    if h == "is_in":
        def is_in(x, *vs):
            acc = False
            for v in vs:
                acc = s_binop("or", acc, s_binop("eq", x, v))
            return acc
        return _lift(is_in, [ev(a, rows, env) for a in t[1:]], n)
    if h == "round":
        d = t[2][1] if len(t) > 2 else 0
        return _lift(lambda x: None if x is None else _round_half_up(x, d), [ev(t[1], rows, env)], n)
    if h == "clip":
        def clip(x, lo, hi):
            if x is None:
                return None
            r = min(max(x, lo), hi)
            # the result has the common type of the three arguments
            return float(r) if any(isinstance(v, float) for v in (x, lo, hi)) and not isinstance(r, bool) else r
        return _lift(clip, [ev(a, rows, env) for a in t[1:4]], n)
    if h in ("hmax", "hmin"):
        f = max if h == "hmax" else min
        def hm(*xs):
            ys = [x for x in xs if x is not None]
            return f(ys) if ys else None
        return _lift(hm, [ev(a, rows, env) for a in t[1:]], n)
    if h in ("hsum", "hany", "hall"):
        op = {"hsum": "add", "hany": "or", "hall": "and"}[h]
        def fold(*xs):
            acc = xs[0]
            for x in xs[1:]:
                acc = s_binop(op, acc, x)
            return acc
        return _lift(fold, [ev(a, rows, env) for a in t[1:]], n)
    if h == "case":
        conds = [(ev(c, rows, env), ev(v, rows, env)) for c, v in t[1]]
        default = ev(t[2], rows, env) if len(t) > 2 and t[2] is not None else Scalar(None)
        flat = [x for cv in conds for x in cv] + [default]
        # the branches have a common type: in a float-typed case expression an integer branch
        # yields floats
        try:
            to_float = typeof(t, env) == "float"
        except (Reject, Disabled):
            to_float = False

        def case(*xs):
            r = xs[-1]
            for i in range(0, len(xs) - 1, 2):
                if xs[i] is True:
                    r = xs[i + 1]
                    break
            return float(r) if to_float and isinstance(r, int) and not isinstance(r, bool) else r
        return _lift(case, flat, n)
    if h == "map":
        x = ev(t[1], rows, env)
        pairs = []
        for key, val in t[2]:
            keys = key[1:] if (isinstance(key, list) and key and key[0] == "tuple") else [key]
            pairs.append(([ev(k, rows, env) for k in keys], ev(val, rows, env)))
        default = ev(t[3], rows, env) if len(t) > 3 and t[3] is not None else x
        flat = [x]
        shape = []
        for ks, v in pairs:
            flat.extend(ks)
            flat.append(v)
            shape.append(len(ks))
        flat.append(default)
        def mp(*xs):
            xv = xs[0]
            i = 1
            for nk in shape:
                acc = False
                for k in xs[i:i + nk]:
                    acc = s_binop("or", acc, s_binop("eq", xv, k))
                if acc is True:
                    return xs[i + nk]
                i += nk + 1
            return xs[-1]
        return _lift(mp, flat, n)
    if h == "cast":
        return _lift(lambda x: s_cast(x, t[2]), [ev(t[1], rows, env)], n)
    if h.startswith("str_"):
        args = [a for a in t[1:] if not isinstance(a, dict)]
        vals = [ev(a, rows, env) for a in args]
        return _lift(lambda *xs: _str_op(h, *xs), vals, n)
    if h.startswith("dt_"):
        return _lift(lambda x: _dt_op(h, x), [ev(t[1], rows, env)], n)
    if h in AGGS:
        return _ev_agg(t, rows, env)
    if h in WINDOWS:
        return _ev_window(t, rows, env)
    if h in ("desc", "asc", "nulls_first", "nulls_last"):
        raise Reject("TypeError", "ordering marker outside arrange")
    raise ValueError(f"model: unknown head {h}")


def _str_op(h, x, *a):
    if x is None or any(v is None for v in a):
        return None
    if h == "str_len":
        return len(x)
    if h == "str_upper":
        return x.upper()
    if h == "str_lower":
        return x.lower()
    if h == "str_strip":
        return x.strip()
    if h == "str_starts_with":
        return x.startswith(a[0])
    if h == "str_ends_with":
        return x.endswith(a[0])
    if h == "str_contains":
        return a[0] in x
    if h == "str_replace_all":
        if a[0] == "":
            raise Disabled("empty pattern")
        return x.replace(a[0], a[1])
    if h == "str_slice":
        return x[a[0]:a[0] + a[1]]
    raise ValueError(h)


def _dt_op(h, x):
    if x is None:
        return None
    f = h[3:]
    if f == "day_of_week":
        return x.isoweekday()
    if f == "day_of_year":
        return x.timetuple().tm_yday
    return getattr(x, f)


def _agg_value(h, vals, nrows):
    if h == "count_star":
        return nrows
    nn = [v for v in vals if v is not None]
    if h == "count":
        return len(nn)
    if not nn:
        return None
    if h == "sum":
        return sum(_as_num(v) for v in nn)
    if h == "mean":
        return sum(_as_num(v) for v in nn) / len(nn)
    if h == "min":
        return min(nn)
    if h == "max":
        return max(nn)
    if h == "any":
        return any(nn)
    if h == "all":
        return all(nn)
    raise ValueError(h)


def _ctx(t, pos):
    return t[pos] if len(t) > pos and isinstance(t[pos], dict) else {}


def _partition(rows, env, ck):
    """-> list of lists of row indices"""
    if "partition_by" in ck:
        cids = [env.resolve(c) for c in ck["partition_by"]]
    elif env.mode == "mutate":
        cids = list(env.state.group)
    else:
        cids = []
    parts: dict = {}
    for i, r in enumerate(rows):
        parts.setdefault(tuple(_hashable(r[c]) for c in cids), []).append(i)
    return list(parts.values())


def _ev_agg(t, rows, env):
    h = t[0]
    n = len(rows)
    if h == "count_star":
        ck = _ctx(t, 1)
        arg = None
    else:
        ck = _ctx(t, 2)
        arg = t[1]
    if env.mode in ("filter", "on", "arrange"):
        raise Reject("FunctionTypeError", f"aggregate {h} in {env.mode}")
    if env.mode == "inner":
        raise Reject("FunctionTypeError", "nested aggregate / window function")
    sub = Env(env.state, env.states, mode="inner", right=env.right, right_states=env.right_states)
    if "arrange" in ck:
        raise Disabled("ordered aggregation is outside all alphabets")
    vals = None if arg is None else _bcast(ev(arg, rows, sub), n)
    keep = [True] * n
    if "filter" in ck:
        for f in ck["filter"]:
            fv = _bcast(ev(f, rows, sub), n)
            keep = [k and (v is True) for k, v in zip(keep, fv)]
    if env.mode == "summarize" and "partition_by" not in ck:
        idx = [i for i in range(n) if keep[i]]
        return Scalar(_agg_value(h, None if vals is None else [vals[i] for i in idx], len(idx)))
    if env.mode == "summarize":
        raise Disabled("partition_by= inside summarize")
    out = [None] * n
    for part in _partition(rows, env, ck):
        idx = [i for i in part if keep[i]]
        v = _agg_value(h, None if vals is None else [vals[i] for i in idx], len(idx))
        for i in part:
            out[i] = v
    return out


def _ev_window(t, rows, env):
    h = t[0]
    n = len(rows)
    if env.mode == "summarize":
        raise Reject("FunctionTypeError", f"window function {h} in summarize")
    if env.mode in ("filter", "on", "arrange"):
        raise Reject("FunctionTypeError", f"window function {h} in {env.mode}")
    if env.mode == "inner":
        raise Reject("FunctionTypeError", "nested aggregate / window function")
    sub = Env(env.state, env.states, mode="inner", right=env.right, right_states=env.right_states)
    if h in ("row_number", "rank", "dense_rank"):
        ck = _ctx(t, 1)
        vals = None
    elif h == "shift":
        ck = _ctx(t, 4)
        vals = _bcast(ev(t[1], rows, sub), n)
    else:
        ck = _ctx(t, 2)
        vals = _bcast(ev(t[1], rows, sub), n)

    specs = []
    keycols = []
    for o in ck.get("arrange", []):
        e, desc, nl = _order_spec(o)
        kv = _bcast(ev(e, rows, sub), n)
        if nl is None and any(v is None for v in kv):
            raise Disabled("null in arrange= key without nulls_first/nulls_last")
        keycols.append(kv)
        specs.append((desc, nl))
    if h in ("rank", "dense_rank") and not specs:
        raise Reject("TypeError", f"{h} requires arrange=")
    keyf = sort_key_fn(specs)
    keys = [keyf(tuple(kc[i] for kc in keycols)) for i in range(n)]
    out = [None] * n
    implicit = getattr(env.model, "implicit_window_order", False)
    for part in _partition(rows, env, ck):
        if h in ORDER_SENSITIVE:
            if specs:
                if len({keys[i] for i in part}) != len(part):
                    raise Disabled("arrange= is not total within a partition")
            elif not implicit:
                raise Disabled("order-sensitive window function without arrange=")
            elif not env.state.order_total() and env.model.order_rule == "portable":
                raise Disabled("current order is not total")
        order = sorted(part, key=lambda i: keys[i])  # stable w.r.t. current sequence
        if h == "row_number":
            for rank, i in enumerate(order, 1):
                out[i] = rank
        elif h == "rank":
            for i in part:
                out[i] = 1 + sum(1 for j in part if keys[j] < keys[i])
        elif h == "dense_rank":
            distinct = sorted({keys[i] for i in part})
            for i in part:
                out[i] = 1 + distinct.index(keys[i])
        elif h == "shift":
            by = t[2]
            fill = W.dec(t[3][1]) if len(t) > 3 and t[3] is not None else None
            m = len(order)
            for pos, i in enumerate(order):
                src = pos - by
                out[i] = vals[order[src]] if 0 <= src < m else fill
        elif h == "cum_sum":
            acc = None
            for i in order:
                if vals[i] is not None:
                    acc = vals[i] if acc is None else acc + vals[i]
                out[i] = acc
    return out


# --------------------------------------------------------------------------------------
# static types (families): int float bool str date datetime null

NUMF = ("int", "float")


def family(tyname: str) -> str:
    """world column type name -> model family"""
    if tyname.startswith(("int", "uint")):
        return "int"
    if tyname.startswith("float"):
        return "float"
    return tyname


def lit_family(v) -> str:
    v = W.dec(v)
    if v is None:
        return "null"
    if isinstance(v, bool):
        return "bool"
    if isinstance(v, int):
        return "int"
    if isinstance(v, float):
        return "float"
    if isinstance(v, str):
        return "str"
    if isinstance(v, _dt.datetime):
        return "datetime"
    if isinstance(v, _dt.date):
        return "date"
    raise ValueError(v)


def _terr(msg):
    raise Reject("DataTypeError", msg)


def lca(ts, what="values"):
    ts = [t for t in ts if t != "null"]
    if not ts:
        return "null"
    if all(t == ts[0] for t in ts):
        return ts[0]
    if all(t in NUMF for t in ts):
        return "float"
    _terr(f"incompatible types of {what}: {ts}")


def _conv(t, target):
    """implicit conversion allowed?"""
    return t == target or t == "null" or (t == "int" and target == "float")


def typeof(t, env) -> str:
    h = t[0]
    if h == "lit":
        if len(t) > 2:
            return family(t[2])
        return lit_family(t[1])
    if h == "col":
        cid = env.resolve(t)
        st = env.state
        if cid in st.types:
            return st.types[cid]
        return env.right.types[cid]
    ch = children(t)
    if h in ("desc", "asc", "nulls_first", "nulls_last"):
        raise Reject("TypeError", "ordering marker outside arrange")
    if h in AGGS or h in WINDOWS:
        args = [a for a in t[1:] if isinstance(a, list)]
        ck = next((a for a in t[1:] if isinstance(a, dict)), {})
        for f in ck.get("filter", []):
            if not _conv(typeof(f, env), "bool"):
                _terr("filter= must be boolean")
        for o in ck.get("arrange", []):
            typeof(_order_spec(o)[0], env)
        for c in ck.get("partition_by", []):
            typeof(c, env)
        at = typeof(args[0], env) if args else None
        if h in ("count_star", "row_number", "rank", "dense_rank", "count"):
            return "int"
        if h == "sum" or h == "cum_sum":
            if at == "bool" and h == "sum":
                return "int"
            if at in NUMF or at == "null":
                return at if at != "null" else "int"
            _terr(f"{h} of {at}")
        if h == "mean":
            if at in NUMF or at == "null":
                return "float"
            _terr(f"mean of {at}")
        if h in ("min", "max"):
            return at
        if h in ("any", "all"):
            if not _conv(at, "bool"):
                _terr(f"{h} of {at}")
            return "bool"
        if h == "shift":
            if len(t) > 3 and t[3] is not None and not _conv(typeof(t[3], env), at):
                _terr("shift fill value type")
            return at
    ts = [typeof(c, env) for c in ch]
    if h in ("add", "sub", "mul"):
        a, b = ts
        if a in NUMF + ("null",) and b in NUMF + ("null",):
            if a == b == "null":
                raise Disabled("no unique overload for untyped nulls")
            return lca([a, b])
        if h == "add" and _conv(a, "str") and _conv(b, "str"):
            return "str"
        if h == "add" and _conv(a, "bool") and _conv(b, "bool"):
            return "int"
        _terr(f"{h}({a},{b})")
    if h == "truediv" or h == "pow":
        if all(x in NUMF + ("null",) for x in ts):
            return "float"
        _terr(f"{h}{ts}")
    if h in ("floordiv", "mod"):
        if all(_conv(x, "int") for x in ts):
            return "int"
        _terr(f"{h}{ts}")
    if h in ("eq", "ne", "lt", "le", "gt", "ge"):
        lca(ts, "comparison operands")
        return "bool"
    if h in ("and", "or", "xor", "invert", "hany", "hall"):
        if all(_conv(x, "bool") for x in ts):
            return "bool"
        _terr(f"{h}{ts}")
    if h in ("neg", "pos", "abs"):
        if ts[0] in NUMF:
            return ts[0]
        if ts[0] == "null":
            raise Disabled("no unique overload for an untyped null")
        _terr(f"{h}({ts[0]})")
    if h in ("is_null", "is_not_null"):
        return "bool"
    if h in ("is_nan", "is_not_nan"):
        if _conv(ts[0], "float"):
            return "bool"
        _terr(f"{h}({ts[0]})")
    if h in ("fill_null", "coalesce", "hmax", "hmin"):
        return lca(ts)
    if h == "is_in":
        lca(ts)
        return "bool"
    if h == "hsum":
        r = lca(ts)
        if r not in NUMF + ("str", "null"):
            _terr(f"sum{ts}")
        return r
    if h == "round":
        if ts[0] in NUMF:
            return ts[0]
        _terr(f"round({ts[0]})")
    if h in ("floor", "ceil", "exp", "log", "sqrt"):
        if _conv(ts[0], "float"):
            return "float"
        _terr(f"{h}({ts[0]})")
    if h == "clip":
        return lca(ts)
    if h == "case":
        conds = [typeof(c, env) for c, _ in t[1]]
        for c in conds:
            if c != "bool":
                _terr("when condition must be boolean")
        vals = [typeof(v, env) for _, v in t[1]]
        if len(t) > 2 and t[2] is not None:
            vals.append(typeof(t[2], env))
        return lca(vals, "case branches")
    if h == "map":
        xt = typeof(t[1], env)
        vals = []
        for key, val in t[2]:
            keys = key[1:] if (isinstance(key, list) and key and key[0] == "tuple") else [key]
            lca([xt] + [typeof(k_, env) for k_ in keys])
            vals.append(typeof(val, env))
        vals.append(typeof(t[3], env) if len(t) > 3 and t[3] is not None else xt)
        return lca(vals, "map values")
    if h == "cast":
        src, tgt = ts[0], family(t[2])
        ok = {
            ("float", "int"), ("str", "int"), ("str", "float"), ("int", "str"), ("float", "str"),
            ("int", "float"), ("int", "int"), ("float", "float"), ("datetime", "date"), ("date", "datetime"),
            ("datetime", "str"), ("date", "str"), ("bool", "int"), ("bool", "float"),
        }
        if src == tgt or src == "null" or (src, tgt) in ok:
            return tgt
        _terr(f"cast {src} -> {tgt}")
    if h.startswith("str_"):
        if not _conv(ts[0], "str"):
            _terr(f"{h} of {ts[0]}")
        return {"str_len": "int", "str_starts_with": "bool", "str_ends_with": "bool", "str_contains": "bool"}.get(h, "str")
    if h.startswith("dt_"):
        return "int"
    raise ValueError(f"typeof: unknown head {h}")


# --------------------------------------------------------------------------------------
# verbs


class Model:
    def __init__(self, world, *, order_rule="portable", implicit_window_order=True):
        self.world = world
        self.order_rule = order_rule  # "portable": order only from arrange; "polars": list order
        self.implicit_window_order = implicit_window_order

    def source(self, name) -> MState:
        return source_state(self.world, name)

    # sequence comparison allowed for this state?
    def seq_comparable(self, st: MState, backend: str) -> bool:
        if backend == "polars" and st.seq_defined:
            return True
        return st.order_total()

    def slice_enabled(self, st: MState) -> bool:
        if self.order_rule == "polars":
            return st.seq_defined or st.order_total()
        return st.order_total()

    def run(self, history, *, states=None):
        """history = [["source", T], ev...] -> list of states (one per prefix)."""
        assert history[0][0] == "source"
        out = [self.source(history[0][1])]
        for e in history[1:]:
            out.append(self.step(out, e))
        return out

    def side(self, side, main_states=None):
        if "at" in side:
            # the table the main history had after ``at`` events, aliased: the operand shares every
            # verb node with the main table
            base = main_states[side["at"]]
            if isinstance(base, Reject):
                raise Disabled("side refers to a rejected state")
            if base.group:
                raise Disabled("side refers to a grouped state")
            states = [self._alias(base, 0, keep=False, name=side["alias"] if isinstance(side.get("alias"), str) else None)]
            for e in side.get("hist", []):
                states.append(self.step(states, e))
            return states
        st = self.source(side["src"]).copy()
        # columns created inside the operand get ids of their own (the counters of two independently
        # derived tables would otherwise hand out the same ids, e.g. "m1" on both sides of a join)
        self._n_side = getattr(self, "_n_side", 0) + 1
        st.n_new = 1000 * self._n_side
        states = [st]
        if side.get("alias"):
            states[0] = self._alias(st, 0, keep=False, name=side["alias"] if isinstance(side["alias"], str) else None)
        for e in side.get("hist", []):
            states.append(self.step(states, e))
        return states

    def step(self, states, e) -> MState:
        st = states[-1]
        k = e[0]
        f = getattr(self, "_v_" + k, None)
        if f is None:
            raise ValueError(f"model: unknown event {k}")
        return f(st, states, e)

    # -- helpers -----------------------------------------------------------------------
    def _cols_arg(self, st, states, refs, verb):
        env = Env(st, states, mode=verb, model=self)
        return [env.resolve(c) for c in refs]

    def _v_select(self, st, states, e):
        cids = self._cols_arg(st, states, e[1], "select")
        for c in cids:
            if c not in st.visible:
                raise Reject("ColumnNotFoundError", "re-select of a hidden column")
        if len(set(cids)) != len(cids):
            raise Reject("ValueError", "a column is selected more than once")
        n = st.copy()
        n.visible = cids
        return n

    def _v_drop(self, st, states, e):
        cids = set(self._cols_arg(st, states, e[1], "drop"))
        n = st.copy()
        n.visible = [c for c in st.visible if c not in cids]
        return n

    def _v_rename(self, st, states, e):
        env = Env(st, states, mode="rename", model=self)
        m = {}
        for old, new in e[1]:
            if isinstance(old, list):
                cid = env.resolve(old)
                if cid not in st.visible:
                    raise Reject("ColumnNotFoundError", "rename of a hidden column")
            else:
                cid = st.name_to_cid(old)
                if cid is None:
                    raise Reject("ValueError", f"no column {old}")
            m[cid] = new
        n = st.copy()
        for cid, new in m.items():
            n.cols[cid] = new
        names = n.names()
        if len(set(names)) != len(names):
            raise Reject("ValueError", "rename would cause duplicate column name")
        return n

    def _v_mutate(self, st, states, e):
        env = Env(st, states, mode="mutate", model=self)
        nrows = len(st.rows)
        newcols = []
        for name, term in e[1]:
            ty = typeof(term, env)
            vals = _bcast(ev(term, st.rows, env), nrows)
            newcols.append((name, vals, ty))
        n = st.copy()
        for name, vals, ty in newcols:
            old = n.name_to_cid(name)
            if old is not None:
                n.visible.remove(old)  # hidden, still referable by identity
            cid = n.new_cid("m")
            n.cols[cid] = name
            n.types[cid] = ty
            n.visible.append(cid)
            for r, v in zip(n.rows, vals):
                r[cid] = v
        return n

    def _v_filter(self, st, states, e):
        env = Env(st, states, mode="filter", model=self)
        nrows = len(st.rows)
        keep = [True] * nrows
        for term in e[1]:
            if typeof(term, env) != "bool":
                raise Reject("DataTypeError", "non-boolean filter")
            vals = _bcast(ev(term, st.rows, env), nrows)
            keep = [k and (v is True) for k, v in zip(keep, vals)]
        n = st.copy()
        n.rows = [r for r, k in zip(n.rows, keep) if k]
        return n

    def _v_arrange(self, st, states, e):
        env = Env(st, states, mode="arrange", model=self)
        nrows = len(st.rows)
        n = st.copy()
        new_keys = []
        specs = []
        keycols = []
        for o in e[1]:
            term, desc, nl = _order_spec(o)
            typeof(term, env)
            kv = _bcast(ev(term, st.rows, env), nrows)
            if nl is None and any(v is None for v in kv):
                raise Disabled("null in arrange key without nulls_first/nulls_last")
            pc = n.new_cid("#o")
            for r, v in zip(n.rows, kv):
                r[pc] = v
            new_keys.append((pc, desc, nl))
            specs.append((desc, nl))
            keycols.append(kv)
        keyf = sort_key_fn(specs)
        order = sorted(range(nrows), key=lambda i: keyf(tuple(kc[i] for kc in keycols)))
        n.rows = [n.rows[i] for i in order]
        n.order_keys = new_keys + n.order_keys
        if not st.seq_defined:
            # ties are broken by an order nothing documents -> only total orders count
            n.seq_defined = n.order_total()
        return n

    def _v_slice_head(self, st, states, e):
        if e[1] < 0 or e[2] < 0:
            raise Reject("ValueError", "negative n / offset")
        if st.group:
            raise Reject("ValueError", "slice_head on a grouped table")
        if not self.slice_enabled(st):
            raise Disabled("slice_head on an order that is not determined")
        n = st.copy()
        n.rows = n.rows[e[2]: e[2] + e[1]]
        return n

    def _v_group_by(self, st, states, e):
        cids = self._cols_arg(st, states, e[1], "group_by")
        for c in cids:
            if c not in st.visible:
                raise Reject("ValueError", "group_by of a hidden column")
        n = st.copy()
        base = list(st.group) if (len(e) > 2 and e[2]) else []
        for c in cids:  # a column is part of the grouping only once
            if c not in base:
                base.append(c)
        n.group = base
        return n

    def _v_ungroup(self, st, states, e):
        n = st.copy()
        n.group = []
        return n

    def _v_summarize(self, st, states, e):
        env = Env(st, states, mode="summarize", model=self)
        if not e[1] and not st.group:
            raise Reject("ValueError", "empty ungrouped summarize")
        if any(c not in st.visible for c in st.group):
            # like group_by itself: grouping columns must be selected
            raise Reject("ValueError", "grouping column is not selected")
        groups: dict = {}
        for r in st.rows:
            groups.setdefault(tuple(_hashable(r[c]) for c in st.group), []).append(r)
        if not st.group:
            groups = {(): list(st.rows)}
        n = MState()
        n.tname = st.tname
        n.origin = st.origin
        n.n_new = st.n_new
        new_names = [name for name, _ in e[1]]
        keep_group = [c for c in st.group if st.cols[c] not in new_names]
        for c in keep_group:
            n.cols[c] = st.cols[c]
            n.types[c] = st.types[c]
            n.visible.append(c)
        # static checks: types; bare non-grouping column outside an aggregate
        tys = []
        for _, term in e[1]:
            tys.append(typeof(term, env))
            self._check_summarize_term(term, env, st, False)
        new_cids = []
        for (name, _), ty in zip(e[1], tys):
            cid = n.new_cid("s")
            n.cols[cid] = name
            n.types[cid] = ty
            n.visible.append(cid)
            new_cids.append(cid)
        for key, grows in groups.items():
            row = {}
            for c in keep_group:
                row[c] = grows[0][c]
            for cid, (_, term) in zip(new_cids, e[1]):
                v = ev(term, grows, env)
                if isinstance(v, Scalar):
                    row[cid] = v.v
                else:
                    row[cid] = v[0] if v else None
            n.rows.append(row)
        n.seq_defined = len(n.rows) <= 1
        n.order_keys = []
        n.group = []
        return n

    def _check_summarize_term(self, t, env, st, under_agg):
        h = t[0]
        if h == "col":
            cid = env.resolve(t)
            if cid not in st.group and not under_agg:
                raise Reject("FunctionTypeError", "column neither aggregated nor grouping")
            return
        ua = under_agg or h in AGGS
        for c in children(t):
            self._check_summarize_term(c, env, st, ua)

    def _alias(self, st, step, *, keep, name=None):
        n = st.copy()
        if name is not None:
            n.tname = name
        if keep:
            return n
        # every alias() is a new table identity, also when the same derivation is built twice
        self._n_alias = getattr(self, "_n_alias", 0) + 1
        tag = f"@a{self._n_alias}"
        ren = {c: (c if c.startswith("#") else c + tag) for c in st.cols}
        for k in [k for k, _, _ in st.order_keys]:
            ren[k] = k
        n.cols = {ren[c]: nm for c, nm in st.cols.items()}
        n.types = {ren[c]: ty for c, ty in st.types.items() if c in ren}
        n.visible = [ren[c] for c in st.visible]
        n.group = [ren[c] for c in st.group]
        # (cells of columns that are out of scope are dropped, not carried under their old id)
        n.rows = [{ren.get(c, c): v for c, v in r.items() if c in ren or c.startswith("#")} for r in st.rows]
        n.origin = frozenset([f"alias{tag}"])
        return n

    def _v_alias(self, st, states, e):
        name = e[1] if len(e) > 1 else None
        keep = bool(e[2]) if len(e) > 2 else False
        return self._alias(st, len(states), keep=keep, name=name)

    def _v_collect(self, st, states, e):
        keep = bool(e[1]) if len(e) > 1 else True
        if not keep:
            n = self._alias(st, len(states), keep=False)
            vis = set(n.visible)
            n.cols = {c: nm for c, nm in n.cols.items() if c in vis or c.startswith("#")}
            n.group = []
            return n
        if any(c not in st.visible for c in st.group):
            raise Reject("ValueError", "grouping column is not selected")
        n = st.copy()
        vis = set(n.visible)
        n.cols = {c: nm for c, nm in n.cols.items() if c in vis or c.startswith("#")}
        n.rows = [{c: v for c, v in r.items() if c in vis or c.startswith("#")} for r in n.rows]
        return n

    def _v_transfer(self, st, states, e):
        # data of the visible columns in a fresh (ungrouped) table that answers to the
        # references of the table it was made from; hidden columns are gone
        n = st.copy()
        vis = set(n.visible)
        n.cols = {c: nm for c, nm in n.cols.items() if c in vis}
        n.rows = [{c: v for c, v in r.items() if c in vis or c.startswith("#")} for r in n.rows]
        n.group = []
        return n

    # -- join ----------------------------------------------------------------------------
    def _v_join(self, st, states, e):
        rstates = self.side(e[1], states)
        rt = rstates[-1]
        how = e[2]
        opts = e[4] if len(e) > 4 else {}
        if st.group or rt.group:
            raise Reject("ValueError", "join of a grouped table")
        if st.origin & rt.origin:
            raise Reject("ValueError", "tables derived from a common table")
        user_suffix = opts.get("suffix")
        env = Env(st, states, mode="on", right=rt, right_states=rstates, model=self)
        on_terms = []
        on_cids = set()
        if how != "cross":
            for o in e[3]:
                if isinstance(o, str):
                    lc, rc = st.name_to_cid(o), rt.name_to_cid(o)
                    if lc is None or rc is None:
                        raise Reject("ColumnNotFoundError", f"no column {o}")
                    on_terms.append(("eqcid", lc, rc))
                    on_cids |= {lc, rc}
                else:
                    on_terms.append(("term", o))
                    for c in _colrefs(o):
                        on_cids.add(env.resolve(c))
            if how == "full":
                # every predicate has to be an equality between an expression over one table and an
                # expression over the other table (or a constant)
                rcids = set(rt.cols)

                def key_ok(t):
                    if t[0] == "and":
                        return key_ok(t[1]) and key_ok(t[2])
                    if t[0] != "eq":
                        return False
                    sides = []
                    for arg in t[1:3]:
                        cids = {env.resolve(c) for c in _colrefs(arg)}
                        if not cids:
                            sides.append(None)
                        elif cids <= rcids:
                            sides.append(True)
                        elif not (cids & rcids):
                            sides.append(False)
                        else:
                            return False
                    return sides[0] != sides[1]

                for o in on_terms:
                    if o[0] == "term" and not key_ok(o[1]):
                        raise Reject("ValueError", "full join needs equality predicates between the two tables")
        # names
        left_names = st.names()
        right_names = rt.names()
        new_right = self.join_names(left_names, right_names, user_suffix, rt.tname,
                                    {rt.cols[c] for c in rt.visible if c in on_cids})
        # rows
        pairs = []
        matched_l = set()
        matched_r = set()
        allcols_env_rows = []
        for i, lr in enumerate(st.rows):
            for j, rr in enumerate(rt.rows):
                allcols_env_rows.append((i, j, {**lr, **rr}))
        merged_rows = [m for _, _, m in allcols_env_rows]
        ok = [True] * len(merged_rows)
        jenv = Env(_merge_scope(st, rt), states, mode="on", right=rt, right_states=rstates, model=self)
        jenv.merged = True  # ambiguity of C-references was decided above, on the two sides
        for o in on_terms:
            if o[0] == "eqcid":
                vals = [s_binop("eq", m[o[1]], m[o[2]]) for m in merged_rows]
            else:
                if typeof(o[1], jenv) != "bool":
                    raise Reject("DataTypeError", "non-boolean join condition")
                vals = _bcast(ev(o[1], merged_rows, jenv), len(merged_rows))
            ok = [a and (v is True) for a, v in zip(ok, vals)]
        for (i, j, m), a in zip(allcols_env_rows, ok):
            if a:
                pairs.append(m)
                matched_l.add(i)
                matched_r.add(j)
        rnull = {c: None for c in rt.cols if not c.startswith("#")}
        lnull = {c: None for c in st.cols if not c.startswith("#")}
        if how in ("left", "full"):
            for i, lr in enumerate(st.rows):
                if i not in matched_l:
                    pairs.append({**lr, **rnull})
        if how == "full":
            for j, rr in enumerate(rt.rows):
                if j not in matched_r:
                    pairs.append({**lnull, **rr})
        n = MState()
        n.tname = st.tname
        n.origin = st.origin | rt.origin
        n.n_new = max(st.n_new, rt.n_new) + 100
        for c, nm in st.cols.items():
            if not c.startswith("#"):
                n.cols[c] = nm
        for c, nm in rt.cols.items():
            if not c.startswith("#"):
                n.cols[c] = nm
        for c, nm in zip(rt.visible, new_right):
            n.cols[c] = nm
        if isinstance(new_right, NamePattern):
            n.join_pattern = new_right
        n.types = {**st.types, **rt.types}
        n.visible = list(st.visible) + list(rt.visible)
        n.rows = [{c: r.get(c) for c in n.cols} for r in pairs]
        n.seq_defined = len(n.rows) <= 1
        n.order_keys = []
        return n

    @staticmethod
    def join_names(left_names, right_names, user_suffix, right_tname, right_on_names):
        """documented suffix rule; the *number* in a numeric suffix is not pinned by the
        documentation, so the model returns a pattern object for such names."""
        ls = set(left_names)
        if user_suffix:
            out = [nm + user_suffix for nm in right_names]
            if ls & set(out):
                raise Reject("ValueError", "user suffix causes duplicate names")
            return out
        if not (ls & set(right_names)):
            return list(right_names)
        suffix = f"_{right_tname}" if right_tname is not None else "_right"
        only_on_clash = not ((set(right_names) - set(right_on_names)) & ls)
        cnt = 0
        while True:
            sfx = suffix + (f"_{cnt}" if cnt else "")
            if only_on_clash:
                cand = [nm + sfx if nm in ls else nm for nm in right_names]
            else:
                cand = [nm + sfx for nm in right_names]
            if not (ls & set(cand)) and len(set(cand)) == len(cand):
                return NamePattern(cand, right_names, suffix, only_on_clash, ls)
            cnt += 1

    # -- union ---------------------------------------------------------------------------
    def _v_union(self, st, states, e):
        rstates = self.side(e[1], states)
        rt = rstates[-1]
        distinct = bool(e[2])
        if st.group or rt.group:
            raise Reject("ValueError", "union of a grouped table")
        if set(st.names()) != set(rt.names()):
            raise Reject("ValueError", "different visible column names")
        n = MState()
        n.tname = st.tname
        n.origin = st.origin | rt.origin
        n.n_new = max(st.n_new, rt.n_new) + 100
        n.visible = list(st.visible)
        for c in st.visible:
            n.cols[c] = st.cols[c]
            try:
                n.types[c] = lca([st.types[c], rt.types[rt.name_to_cid(st.cols[c])]])
            except Reject:
                raise Reject("TypeError", "no common type") from None
        rows = [{c: r[c] for c in st.visible} for r in st.rows]
        for r in rt.rows:
            rows.append({c: r[rt.name_to_cid(st.cols[c])] for c in st.visible})
        if distinct:
            seen = set()
            out = []
            for r in rows:
                key = tuple(_hashable(r[c]) for c in st.visible)
                if key not in seen:
                    seen.add(key)
                    out.append(r)
            rows = out
        n.rows = rows
        n.seq_defined = len(rows) <= 1
        n.order_keys = []
        return n


def _kind(v):
    if isinstance(v, bool):
        return "bool"
    if isinstance(v, (int, float)):
        return "num"
    return type(v).__name__


class NamePattern(list):
    """right-side names after automatic suffixing: list of the names the reference rule
    yields with the *smallest* numeric suffix, plus what is needed to accept any other
    number (the documentation does not fix which integer is appended)."""

    def __init__(self, names, orig, suffix, only_on_clash, left):
        super().__init__(names)
        self.orig = list(orig)
        self.suffix = suffix
        self.only_on_clash = only_on_clash
        self.left = set(left)

    def matches(self, actual: list[str]) -> bool:
        import re

        if len(actual) != len(self.orig):
            return False
        sfx_seen = set()
        for o, a in zip(self.orig, actual):
            if a == o:
                if not self.only_on_clash or o in self.left:
                    return False
                continue
            m = re.fullmatch(re.escape(o + self.suffix) + r"(_\d+)?", a)
            if not m:
                return False
            sfx_seen.add(a[len(o):])
        if len(sfx_seen) > 1:
            return False
        return len(set(actual)) == len(actual) and not (set(actual) & self.left)


def _merge_scope(st, rt):
    m = MState()
    m.cols = {**st.cols, **rt.cols}
    m.types = {**st.types, **rt.types}
    m.visible = list(st.visible) + list(rt.visible)
    m.group = []
    return m


def _colrefs(t):
    return [x for x in subterms(t) if x[0] == "col"]


def _only_equalities(t):
    if t[0] == "eq":
        return True
    if t[0] == "and":
        return _only_equalities(t[1]) and _only_equalities(t[2])
    return False
