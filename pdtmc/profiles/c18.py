"""C18 - Python literals and patterns reach SQL as data.

Every string of length <= 2 over an alphabet containing every SQL / LIKE metacharacter
(plus fixed longer probes; thorough: length 3 over a 7-symbol core) is used both as the
Python literal and as column data, in every operator position that takes a literal.
Oracle: SQLite result == polars result == reference model; structure: the text of
build_query executes as exactly one statement through raw sqlite3 and returns the same
column list and row count."""

from __future__ import annotations

import itertools

import pydiverse.transform as pdt

from .. import explore as X
from .. import terms as T
from . import base

PROPERTY = "C18"
SIGMA = ["'", '"', "\\", "%", "_", ";", "-", "/", "*", "\n", " ", "a", "é", "日"]
CORE = ["'", "\\", "%", "_", "-", ";", "a"]
LONG = ["'; DROP TABLE T; --", "$0", "a$1.", "(a)", "[a]", "a.c", "^a", "%%", "\\%", "\\_", "a%b_c", "/* c */", "-- x", "''", "\"T\".x", "a' OR '1'='1", "\\\\", "%_%", "%(x)s"]


def strings(tier):
    out = [""] + SIGMA + ["".join(p) for p in itertools.product(SIGMA, repeat=2)] + LONG
    if tier == "thorough":
        out += ["".join(p) for p in itertools.product(CORE, repeat=3)]
    return out


def world(tier):
    data = strings("quick")  # the data column always holds the <= 2 strings and the long probes
    rows = [[i + 1, v] for i, v in enumerate(data)] + [[len(data) + 1, None]]
    return {"tables": {"T": {"cols": [["k", "int"], ["x", "str"]], "rows": rows}}}


x = ["col", "src", "T", "x"]
k = ["col", "src", "T", "k"]


def L(v):
    return ["lit", v]


def events_for(s):
    cols = [
        ["eq", ["eq", x, L(s)]],
        ["ne", ["ne", x, L(s)]],
        ["in1", ["is_in", x, L(s)]],
        ["in2", ["is_in", x, L("a"), L(s)]],
        ["catr", ["add", x, L(s)]],
        ["catl", ["add", L(s), x]],
        ["sw", ["str_starts_with", x, L(s)]],
        ["ew", ["str_ends_with", x, L(s)]],
        ["ct", ["str_contains", x, L(s), {"allow_regex": False}]],
        ["rp2", ["str_replace_all", x, L("a"), L(s)]],
        ["cs", ["case", [[["eq", x, L(s)], L(s)]], L("no")]],
        ["mp", ["map", x, [[L(s), L("hit")]], None]],
        ["c", L(s)],
        ["fn", ["fill_null", x, L(s)]],
        ["ln", ["str_len", ["add", x, L(s)]]],
    ]
    if s != "":
        cols.append(["rp", ["str_replace_all", x, L(s), L("Z")]])
    return [["mutate", cols], ["filter", [["eq", x, L(s)]]], ["filter", [["str_starts_with", x, L(s)]]]]


CONST_EVENTS = [
    ["mutate", [["c1", L(-1)], ["c2", L(0)], ["c3", L(-0.5)], ["c4", L(True)], ["c5", L(False)], ["c6", L(None)],
                ["e1", ["add", k, L(-1)]], ["e2", ["mul", k, L(-0.5)]], ["e3", ["neg", L(-1)]], ["e4", ["sub", k, L(-2)]],
                ["e5", ["eq", x, L(None)]], ["e6", ["fill_null", L(None), k]], ["e7", ["and", L(True), ["gt", k, L(-1)]]],
                ["e8", ["is_in", k, L(-1), L(None), L(3)]], ["e9", ["case", [[["lt", k, L(0)], L(-1)]], L(None)]]]],
    ["filter", [["gt", k, L(-1)], L(True)]],
    ["filter", [["ne", ["mul", k, L(-1)], L(-3)]]],
]


NESTED_EVENTS = [
    ["mutate", [
        ["n1", ["add", ["str_slice", x, L(0), L(1)], ["str_slice", x, L(1), L(1)]]],
        ["n2", ["add", ["str_replace_all", x, L("'"), L("''")], ["str_replace_all", x, L("%"), L("\\%")]]],
        ["n3", ["add", ["fill_null", x, L("%")], ["str_slice", x, L(1), L(5)]]],
        ["n4", ["add", ["coalesce", ["str_slice", x, L(5), L(1)], L("'")], ["fill_null", x, L("-")]]],
        ["n5", ["eq", ["str_slice", x, L(0), L(1)], ["str_slice", x, L(1), L(1)]]],
        ["n6", ["add", ["case", [[["eq", x, L("a")], L("'")]], x], ["str_replace_all", x, L("_"), L("%")]]],
        ["n7", ["str_len", ["add", ["str_slice", x, L(0), L(2)], L(";")]]],
        ["n8", ["str_starts_with", ["add", ["str_slice", x, L(0), L(1)], ["str_slice", x, L(0), L(1)]], L("%")]],
    ]],
    ["filter", [["eq", ["add", ["str_slice", x, L(0), L(1)], ["str_slice", x, L(1), L(1)]], x]]],
]


def Cc(n):
    return ["col", "C", n]


# constants stored in columns by one verb and used by the next: the SQL text of the second
# verb inlines the literal of the first (depth 2)
CHAIN_FIRST = [
    ["mutate", [["c1", L(-1)], ["c3", L(-0.5)], ["c5", L(False)], ["c6", L(None)], ["cq", L("'")], ["cp", L("%")], ["cm", L("--")]]],
    ["mutate", [["c1", ["neg", L(7)]], ["c3", ["neg", L(0.5)]], ["c5", L(True)], ["c6", L(None)], ["cq", L("\\")], ["cp", L("_")], ["cm", L("/*")]]],
]
CHAIN_SECOND = [
    ["mutate", [["d1", ["neg", Cc("c1")]], ["d2", ["sub", Cc("c1"), Cc("c1")]], ["d3", ["neg", Cc("c3")]], ["d4", ["neg", ["neg", Cc("c1")]]],
                ["d5", ["invert", Cc("c5")]], ["d6", ["sub", L(0), Cc("c1")]], ["d7", ["add", Cc("cq"), Cc("cq")]], ["d8", ["add", Cc("cm"), x]],
                ["d9", ["mul", ["neg", Cc("c1")], ["neg", Cc("c3")]]]]],
    # (constant columns as LIKE patterns are not used here: a constant column given for a constant
    # parameter is the known finding F-C19-const-parameter-nonliteral)
    ["mutate", [["e3", ["eq", x, Cc("cq")]], ["e5", ["fill_null", x, Cc("cm")]], ["e6", ["add", ["neg", Cc("c1")], k]],
                ["e7", ["is_in", x, Cc("cq"), Cc("cp")]], ["e8", ["case", [[["eq", x, Cc("cp")], Cc("cm")]], Cc("cq")]]]],
    ["filter", [["lt", ["neg", Cc("c1")], L(9)]]],
    ["filter", [["eq", x, Cc("cq")]]],
    ["filter", [["ne", ["add", x, Cc("cm")], Cc("cm")]]],
]


def chain_alphabet(st, hist):
    return CHAIN_FIRST if len(hist) <= 1 else CHAIN_SECOND


def check_structure(step):
    """the generated statement keeps its structure: exactly one statement, same columns and row count"""
    vs = []
    o = step.obs.get("sqlite")
    if o is None or o.status != "ok":
        return vs
    ex = step.explorer
    try:
        q = o.table >> pdt.build_query()
        raw = ex.built["sqlite"].engine.raw_connection()
        try:
            cur = raw.driver_connection.execute(q)  # sqlite3 refuses more than one statement
            rows = cur.fetchall()
            names = [d[0] for d in cur.description]
        finally:
            raw.close()
    except Exception as e:  # noqa: BLE001
        vs.append(X.violation(step, "single-statement", "sqlite", f"exception:{X.exc_label(e)}", {"message": str(e)[:300]}))
        return vs
    ex.stats["statements_executed_raw"] += 1
    if names != o.names or len(rows) != len(o.rows):
        vs.append(X.violation(step, "statement-structure", "sqlite", "columns-or-row-count",
                              {"names": names, "expected_names": o.names, "rows": len(rows), "expected_rows": len(o.rows)}))
    return vs


def classify(v):
    ev = v["history"][-1]
    from .c03 import shape

    def lit_of(t):
        for sub in __import__("pdtmc.refmodel", fromlist=["subterms"]).subterms(t):
            if sub[0] == "lit" and isinstance(sub[1], str) and sub[1] not in ("a", "Z", "no", "hit"):
                return sub[1]
        return None
    if ev[0] == "mutate":
        term = ["hsum", *[e for _, e in ev[1]]] if False else ev[1][0][1]
        label = "mutate:" + ",".join(n for n, _ in ev[1])[:40]
        lit = lit_of(["coalesce", *[e for _, e in ev[1]]])
    else:
        label = "filter:" + shape(ev[1][0])
        lit = lit_of(ev[1][0])
    chars = "".join(sorted(set(lit))) if lit else ""
    return "|".join([v["invariant"], v["backend"], label, repr(chars), v["symptom"]])


def make_explorer(world_, events):
    return X.Explorer(world_, alphabet=lambda st, hist: events, checks=[check_structure], depth=1, oracle="both", names="list")


def tasks(tier):
    n = len(strings(tier))
    out = [{"range": [i, min(n, i + 12)]} for i in range(0, n, 12)]
    out.append({"consts": True})
    out.append({"chain": True})
    return out


def run_task(task, tier):
    w = world(tier)
    if task.get("chain"):
        res = base.run_history_task(lambda ww: X.Explorer(ww, alphabet=chain_alphabet, checks=[check_structure], depth=2, oracle="both", names="list"),
                                    w, [["source", "T"]], None, minimise=False, params={"tier": tier, "chain": True}, classify=classify)
        for v in res["violations"]:
            v["world"] = _shrink(v)
        return res
    if task.get("consts"):
        events = CONST_EVENTS + NESTED_EVENTS
    else:
        ss = strings(tier)[task["range"][0]:task["range"][1]]
        events = [e for s in ss for e in events_for(s)]
    res = base.run_history_task(lambda ww: make_explorer(ww, events), w, [["source", "T"]], None, minimise=False,
                                params={"tier": tier}, classify=classify)
    res["stats"]["literal_data_pairs"] = len(events) * len(w["tables"]["T"]["rows"])
    for v in res["violations"]:
        v["world"] = _shrink(v)
    return res


def _shrink(v):
    """keep the replay small: only the rows that differ are needed to reproduce a value mismatch;
    the full table is rebuilt by recheck when the world carries the marker"""
    return {"marker": "c18-world"}


def recheck(rec):
    ev = rec["history"][-1]
    tier = (rec.get("params") or {}).get("tier", "quick")
    rec = dict(rec)
    rec["world"] = world(tier)
    if (rec.get("params") or {}).get("chain"):
        return base.recheck_history(lambda ww: X.Explorer(ww, alphabet=chain_alphabet, checks=[check_structure], depth=2, oracle="both", names="list"), rec)
    return base.recheck_history(lambda ww: make_explorer(ww, [ev]), rec)


def describe(tier):
    ss = strings(tier)
    return {
        "alphabet": SIGMA,
        "literals": len(ss),
        "literal_family": "'' + all strings of length 1 and 2 over the alphabet + 12 longer probes" + ("; all strings of length 3 over " + repr(CORE) if tier == "thorough" else ""),
        "data": "the same <= 2 strings and probes as column data (224 rows incl. a null)",
        "positions": ["x == lit", "x != lit", "x.is_in(lit)", "x.is_in('a', lit)", "x + lit", "lit + x", "starts_with", "ends_with", "contains(literal)",
                      "replace_all(lit, 'Z')", "replace_all('a', lit)", "when(x == lit).then(lit)", "x.map({lit: 'hit'})", "mutate(c=lit)", "fill_null(lit)",
                      "str.len(x + lit)", "filter(x == lit)", "filter(starts_with)"],
        "constants": "-1, 0, -0.5, True, False, None as constants and inside arithmetic / comparisons / is_in / case",
        "chained": "constants (-1, -7, -0.5, False, None, quote, backslash, %, _, --, /*) stored in columns by one mutate and used by the next verb (negation, subtraction, LIKE patterns, concatenation, comparison), depth 2",
        "nested": "concatenations / comparisons of two string-function results (slice, replace_all, fill_null, coalesce, case) on the metacharacter data",
        "pairs": "every (literal, data string) pair for every position",
        "backends": ["polars", "sqlite"],
        "oracle": "SQLite == polars == reference model per row; build_query text executes as exactly one statement through raw sqlite3 with the same column list and row count",
        "regime": "exhaustive over literals x positions x data",
        "assumptions": ["engines trusted", "SQLite LIKE made case sensitive by PRAGMA case_sensitive_like (the documented remedy)"],
    }
