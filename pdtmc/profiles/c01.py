"""C01 - Polars and SQL backends return the same table for the same pipeline.

All histories over the full alphabet up to the depth bound, on adversarial / small /
tall inputs; differential oracle polars <-> SQLite (the reference model only supplies
enabledness and whether the final order is determined).  DESIGN.md section 6, C01."""

from __future__ import annotations

from .. import explore as X
from .. import terms as T
from . import base
from .common import F_ADV, F_COLS, full_alphabet, full_world, rows_upto

PROPERTY = "C01"
DEPTH = {"quick": 3, "thorough": 4}
TALL_DEPTH = 2


def tall_world(p):
    rows = [[i + 1, None, None, None, None, None] for i in range(p)]
    rows += [[p + 1, 1, 5, 2.5, True, "a"], [p + 2, 2, 7, -0.5, False, "b"], [p + 3, 1, 7, 1.0, True, "a"]]
    return full_world(rows)


def worlds(tier):
    """-> list of (world, depth)"""
    ws = [(full_world(rows), DEPTH[tier]) for rows in F_ADV[:2]]
    ws.append((full_world(F_ADV[2]), 2 if tier == "quick" else 3))
    ws.append((tall_world(100), 1 if tier == "quick" else TALL_DEPTH))
    if tier == "thorough":
        ws.append((full_world(F_ADV[3]), 3))
        for p in (99, 101, 150):
            ws.append((tall_world(p), TALL_DEPTH))
        # every table with exactly 2 rows over g,x in {null,1,2} x (f,b,s) in {all null, all set}
        for rows in rows_upto([[None, 1, 2], [None, 1, 2], [0, 1]], 2, with_id=True):
            if len(rows) == 2:
                rows = [[r[0], r[1], r[2], *((1.5, True, "a") if r[3] else (None, None, None))] for r in rows]
                ws.append((full_world(rows), 2))
    return ws


def alphabet(st, hist):
    return full_alphabet(st, hist)


N_EVENTS = len(full_alphabet())


def make_explorer(world, depth=3):
    return X.Explorer(world, alphabet=alphabet, checks=[], depth=depth, oracle="differential", names="list",
                      model_kw={"order_rule": "portable"})


def tasks(tier):
    out = []
    for wi, (w, d) in enumerate(worlds(tier)):
        for i in range(N_EVENTS):
            out.append({"world": wi, "first": [i]})
    return out


def run_task(task, tier):
    w, d = worlds(tier)[task["world"]]
    return base.run_history_task(lambda ww: make_explorer(ww, d), w, [["source", "T"]], task["first"],
                                 params={"depth": d})


def recheck(rec):
    d = (rec.get("params") or {}).get("depth", 3)
    return base.recheck_history(lambda ww: make_explorer(ww, d), rec)


def describe(tier):
    ws = worlds(tier)
    return {
        "alphabet": [T.py_event(e) for e in full_alphabet()],
        "alphabet_size": N_EVENTS,
        "depth": DEPTH[tier],
        "worlds": [{"T_rows": len(w["tables"]["T"]["rows"]), "depth": d} for w, d in ws][:12],
        "n_worlds": len(ws),
        "input_family": "ADV (5 rows nulls/dups; 3 rows ties; empty" + ("; single all-null row" if tier == "thorough" else "")
                        + ") + TALL(p leading nulls, p in " + ("{99,100,101,150}" if tier == "thorough" else "{100}") + ")"
                        + ("; every 2-row table over g,x in {null,1,2} x (f,b,s) in {(null,null,null),(1.5,True,'a')} at depth 2" if tier == "thorough" else ""),
        "schema": F_COLS,
        "backends": ["polars", "sqlite"],
        "oracle": "differential: polars export == SQLite export (names in order; rows as sequence when the accumulated arrange keys are total, else multiset); permitted SQL refusals SubqueryError/NotSupportedError",
        "regime": "tree (every history executed; no state merging)",
        "assumptions": [
            "polars and SQLite engines trusted; other SQL servers cannot be executed here (compilation only, C19)",
            "values restricted to the documented domain (DESIGN.md section 4)",
            "reference model used only for enabledness and order-totality",
        ],
    }
