"""C11 - table metadata agrees with the exported frame.

All histories over the name / order affecting alphabet; after every state, on every
backend: columns(), iteration, len, `in` (for every name ever seen), dir and the header of
the printed table agree with the columns of export(Polars()); and the incrementally
maintained cache equals the cache recomputed from the whole pipeline."""

from __future__ import annotations

import warnings

import pydiverse.transform as pdt
from pydiverse.transform._internal.pipe.cache import Cache

from .. import explore as X
from .. import terms as T
from . import base
from .common import Cn, lit

PROPERTY = "C11"
DEPTH = {"quick": 3, "thorough": 4}

WORLD = {"tables": {
    "T": {"cols": [["k", "int"], ["g", "int"], ["x", "int"], ["s", "str"]], "rows": [[1, 1, 5, "a"], [2, 1, None, "b"], [3, None, 2, "a"]]},
    "R": {"cols": [["k", "int"], ["x", "int"], ["w", "int"]], "rows": [[1, 7, 1], [3, 9, 2], [4, 5, 3]]},
    "U": {"cols": [["s", "str"], ["x", "int"], ["k", "int"], ["g", "int"]], "rows": [["c", 1, 9, 2]]},
}}
NAMES = ["k", "g", "x", "s", "w", "y", "xx", "k_R", "x_R", "w_R", "k_s", "x_s", "w_s", "n", "z"]


def src(t, n):
    return ["col", "src", t, n]


ALPHABET = [
    ["select", [src("T", "x"), src("T", "k"), src("T", "g")]],  # reorder
    ["select", [Cn("s"), Cn("k")]],
    ["drop", [src("T", "g")]],
    ["mutate", [["k", ["add", Cn("k"), lit(1)]]]],  # overwrite the first column
    ["mutate", [["g", ["mul", src("T", "x"), lit(2)]]]],  # overwrite a middle column
    ["mutate", [["y", ["add", src("T", "x"), lit(1)]], ["x", lit(0)]]],  # new + overwrite
    ["mutate", [["s", ["fill_null", Cn("s"), lit("-")]]]],  # overwrite the last column
    ["rename", [["x", "xx"]]],
    ["rename", [[src("T", "g"), "x"], [src("T", "x"), "g"]]],
    ["group_by", [Cn("g")]],
    ["summarize", [["n", ["count_star"]]]],
    ["summarize", [["g", ["max", src("T", "x")]], ["n", ["count_star"]]]],  # overwrites the grouping column
    ["summarize", [["n", ["count_star"]], ["g", ["max", src("T", "x")]]]],  # ... with the overwriting aggregate last
    ["group_by", [Cn("k"), Cn("g")]],
    ["join", {"src": "R"}, "left", [["eq", src("T", "k"), src("R", "k")]]],
    ["join", {"src": "R"}, "inner", [["lt", src("T", "k"), src("R", "k")]], {"suffix": "_s"}],
    ["join", {"src": "R", "hist": [["select", [src("R", "w"), src("R", "k")]]]}, "inner", [["eq", src("T", "k"), ["col", "right", "k"]]]],
    ["union", {"src": "U"}, False],
    ["union", {"src": "U", "hist": [["mutate", [["x", ["add", src("U", "x"), lit(1)]]]]]}, True],
    ["alias"],
    ["alias", "A", True],
    ["collect"],
    ["ungroup"],
    ["arrange", [Cn("k")]],
    ["slice_head", 2, 0],
    ["filter", [["gt", Cn("k"), lit(1)]]],
    ["filter", [["gt", Cn("k"), lit(99)]]],  # no row left: the exported frame still has the right columns
]


def alphabet(st, hist):
    return ALPHABET


# (subq) a subquery that has to provide two columns of the same name: the hidden original of an
# overwritten column (still used by the enclosing query) and its visible successor
SUBQ_ROOTS = [
    [["source", "T"], ["mutate", [["x", ["sub", lit(10), src("T", "x")]]]], ["arrange", [src("T", "k")]], ["slice_head", 2, 0], ["alias", "A", True]],
    [["source", "T"], ["arrange", [["nulls_last", src("T", "x")], src("T", "k")]], ["mutate", [["x", ["neg", src("T", "x")]]]], ["slice_head", 2, 0], ["alias"]],
    [["source", "T"], ["mutate", [["k", ["add", src("T", "k"), lit(1)]], ["x", lit(0)]]], ["arrange", [src("T", "k")]], ["slice_head", 3, 0], ["alias", "B", True]],
]
# (the subquery part runs on a table that also has a real column named like the suffixed twin)
SUBQ_WORLD = {"tables": {"T": {"cols": [["k", "int"], ["g", "int"], ["x", "int"], ["s", "str"], ["x_1", "int"]],
                               "rows": [[1, 1, 5, "a", 100], [2, 1, None, "b", 200], [3, None, 2, "a", 300]]}}}
SUBQ = [
    ["mutate", [["q", ["add", ["add", src("T", "x"), Cn("x")], Cn("x_1")]]]],  # hidden original + successor + the real x_1
    ["filter", [["gt", src("T", "x"), lit(1)]]],  # (disabled by the model after a plain alias())
    ["filter", [["gt", Cn("k"), lit(0)]]],
    ["mutate", [["q", src("T", "x")]]],
    ["mutate", [["q", ["add", Cn("x"), lit(1)]]]],
    ["select", [Cn("x"), Cn("k")]],
    ["summarize", [["n", ["count_star"]], ["m", ["max", Cn("x")]]]],
    ["arrange", [Cn("x")]],
]


def subq_explorer(world, root_len):
    return X.Explorer(world, alphabet=lambda st, hist: SUBQ, checks=[check_meta], depth=root_len + 1, oracle="none", names="list")


def header_names(text):
    """column names in the header row of a printed polars table"""
    lines = text.split("\n")
    for i, ln in enumerate(lines):
        if ln.startswith("┌"):
            return [c.strip() for c in lines[i + 1].strip("│").split("┆")]
    return None


def cache_view(c: Cache):
    return {
        "name_to_uuid": list(c.name_to_uuid.items()),
        "uuid_to_name": list(c.uuid_to_name.items()),
        "partition_by": list(c.partition_by),
        "cols": sorted(str(u) for u in c.cols),
        "col_names": sorted((str(u), col.name) for u, col in c.cols.items() if u in c.uuid_to_name),
        "limit": c.limit,
        "group_by": sorted(str(u) for u in c.group_by),
        "is_filtered": c.is_filtered,
        "is_summarized": getattr(c, "is_summarized", None),
        "backend": c.backend.__name__,
    }


def check_meta(step):
    vs = []
    for b, o in step.obs.items():
        if o.status != "ok" or o.rows is None:
            continue
        tbl = o.table
        want = list(o.names)
        step.explorer.stats["metadata_comparisons"] += 1
        with warnings.catch_warnings():
            warnings.simplefilter("ignore")
            got = {
                "columns()": tbl >> pdt.columns(),
                "iteration": [c.name for c in tbl],
                "len": len(tbl),
                "dir": sorted(dir(tbl)),
            }
            exp = {"columns()": want, "iteration": want, "len": len(want), "dir": sorted(want)}
            for key in exp:
                if got[key] != exp[key]:
                    sym = "order" if isinstance(exp[key], list) and sorted(map(str, got[key])) == sorted(map(str, exp[key])) else "names"
                    vs.append(X.violation(step, f"metadata:{key}", b, sym, {"export": want, key: got[key]}))
            for n in NAMES:
                if (n in tbl) != (n in want):
                    vs.append(X.violation(step, "metadata:in", b, "membership", {"name": n, "export": want}))
                    break
            if b == "polars":
                import polars as pl

                with pl.Config(tbl_cols=-1, tbl_width_chars=400):
                    text = str(tbl)
                    if "export failed" in text:
                        vs.append(X.violation(step, "metadata:print", b, "print-failed", {"printed": text[:200]}))
                    hn = header_names(text)
                if hn is not None and hn != want:
                    vs.append(X.violation(step, "metadata:print", b, "header", {"export": want, "printed": hn}))
            # incremental metadata == metadata recomputed from the whole pipeline
            inc = cache_view(tbl._cache)
            rec = cache_view(Cache.from_ast(tbl._ast))
            for key in inc:
                if inc[key] != rec[key]:
                    vs.append(X.violation(step, "cache-incremental-vs-recomputed", b, key,
                                          {"incremental": str(inc[key])[:300], "recomputed": str(rec[key])[:300]}))
                    break
    return vs


def make_explorer(world, depth=3):
    return X.Explorer(world, alphabet=alphabet, checks=[check_meta], depth=depth, oracle="none", names="list")


def tasks(tier):
    return [{"first": [i]} for i in range(len(ALPHABET))] + [{"subq": i} for i in range(len(SUBQ_ROOTS))]


def run_task(task, tier):
    if "subq" in task:
        root = SUBQ_ROOTS[task["subq"]]
        return base.run_history_task(lambda ww: subq_explorer(ww, len(root)), SUBQ_WORLD, root, None, params={"subq": len(root)})
    d = DEPTH[tier]
    return base.run_history_task(lambda ww: make_explorer(ww, d), WORLD, [["source", "T"]], task["first"], params={"depth": d})


def recheck(rec):
    if (rec.get("params") or {}).get("subq"):
        return base.recheck_history(lambda ww: subq_explorer(ww, rec["params"]["subq"]), rec)
    d = (rec.get("params") or {}).get("depth", 3)
    return base.recheck_history(lambda ww: make_explorer(ww, d), rec)


def describe(tier):
    return {
        "alphabet": [T.py_event(e) for e in ALPHABET],
        "alphabet_size": len(ALPHABET),
        "subquery_twins": {"roots": [T.py_history(r) for r in SUBQ_ROOTS], "then": [T.py_event(e) for e in SUBQ], "extra_depth": 2},
        "depth": DEPTH[tier],
        "input_family": "one world T(k,g,x,s), R(k,x,w) (forces suffixes), U (columns of T permuted)",
        "backends": ["polars", "sqlite"],
        "invariants": ["columns() == [c.name for c in tbl] == export columns (names and order)", "len(tbl) == number of exported columns",
                       "`name in tbl` for 15 names == membership in the export", "sorted(dir(tbl)) == sorted export columns",
                       "header of str(tbl) == export columns (polars)",
                       "tbl._cache == Cache.from_ast(tbl._ast) field by field (read-only use of internals)"],
        "regime": "tree",
        "assumptions": ["export(Polars()) is the reference for names and order", "reference model used only to predict documented rejections"],
    }
