"""Shared plumbing of the history-exploring profiles."""

from __future__ import annotations

from collections import Counter

from .. import explore as X
from .. import minimise as MIN
from .. import terms as T


def split_tasks(worlds, alphabet_size_hint, extra=None):
    """one task per (world, first-event index)"""
    out = []
    for wi, w in enumerate(worlds):
        for i in range(alphabet_size_hint):
            t = {"world": wi, "first": [i]}
            if extra:
                t.update(extra)
            out.append(t)
    return out


def run_history_task(make_explorer, world, root, only_first, *, params=None, minimise=True, classify=None):
    ex = make_explorer(world)
    try:
        ex.subtree(root, only_first=only_first)
        stats, outcomes, levels = ex.stats, ex.outcomes, ex.level_counts
        raw = ex.violations
        samples = ex.samples
    finally:
        ex.close()
    # one representative per raw class is minimised; the others are counted
    groups: dict = {}
    for v in raw:
        groups.setdefault(classify(v) if classify else MIN.raw_class(v), []).append(v)
    out = []
    for rc, vs in groups.items():
        vs.sort(key=lambda v: len(v["history"]))
        v = vs[0]
        if minimise:
            v = MIN.minimise(v, lambda w, h: X.check_history(make_explorer, w, h))
        v = dict(v)
        v["class"] = classify(v) if classify else MIN.vclass(v)
        v["count"] = len(vs)
        v["kinds"] = T.kinds(v["history"])
        v["py"] = T.py_history(v["history"])
        try:
            v["repro_py"] = T.repro_py(v["world"], v["history"], v["backend"])
        except Exception:  # noqa: BLE001
            v["repro_py"] = None
        if params is not None:
            v["params"] = params
        out.append(v)
    return {
        "stats": dict(stats),
        "outcomes": dict(outcomes),
        "levels": {str(k): n for k, n in levels.items()},
        "violations": out,
        "samples": samples,
    }


def recheck_history(make_explorer, rec):
    vs, idx = X.check_history(make_explorer, rec["world"], rec["history"])
    return vs or []
