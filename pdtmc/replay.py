"""Re-execute one replay file without the explorer's search:
    python -m pdtmc.replay <file>
exit 1 (and a description) if the recorded violation still occurs, else exit 0."""

from __future__ import annotations

import json
import os
import sys

os.environ.setdefault("POLARS_MAX_THREADS", "1")


def main(argv=None):
    argv = sys.argv[1:] if argv is None else argv
    if not argv:
        print(__doc__)
        return 2
    with open(argv[0]) as f:
        rec = json.load(f)
    from .engine import load_profile

    prof = load_profile(rec["profile"])
    found = prof.recheck(rec)
    want = (rec["invariant"], rec["backend"], rec["symptom"])
    hit = [x for x in found if (x["invariant"], x["backend"], x["symptom"]) == want]
    if hit:
        print(f"STILL FAILS property={rec['property']} invariant={want[0]} backend={want[1]} symptom={want[2]}")
        print(json.dumps(hit[0].get("detail", {}), default=str)[:1500])
        return 1
    print(f"does not fail any more (found: {[(x['invariant'], x['backend'], x['symptom']) for x in found]})")
    return 0


if __name__ == "__main__":
    sys.exit(main())
