"""C05 - arrange orders stably; window functions see the right rows in the right order.

Two exhaustive sub-explorations, both against the reference model on polars and SQLite:

(arr) arrange with one or two keys in every marker combination, optionally a second
      arrange, followed by row-preserving verbs and slice_head;
(win) every window function x partition specification x order specification, in every
      position relative to filter / slice_head / rename / group_by / select / alias.

Inputs: every *sequence* of rows up to the bound (order of the input matters for the
stability of arrange) plus adversarial tables with ties and null runs."""

from __future__ import annotations

import itertools

from .. import explore as X
from .. import terms as T
from . import base
from .common import Cn, lit, rows_upto

PROPERTY = "C05"
COLS = [["k", "int"], ["g", "int"], ["x", "int"], ["b", "bool"]]

ADV = [
    [[1, 1, 2], [2, 1, 2], [3, 1, 1], [4, 2, None], [5, 2, 1]],  # ties under x
    [[1, None, None], [2, None, 1], [3, 1, None], [4, None, None], [5, 2, 2]],  # null runs
    [[1, 2, 1], [2, 1, 1], [3, 2, 2], [4, 1, 2]],
    [[1, 1, 1], [2, 1, 1], [3, 1, 1]],  # all equal
    [[1, None, 2], [2, 2, None], [3, 1, 1], [4, 1, 2]],
    [[1, 2, 2], [2, 2, 1], [3, None, None], [4, 1, None], [5, None, 2]],
    [[1, 1, None], [2, 1, None]],
    [[1, 2, 1]],
]
NSEQ = {"quick": 1, "thorough": 2}


def derive(rows):
    # ids are assigned in *reverse* input order on every second table so that the id
    # order and the input order differ
    return [[k, g, x, None if x is None else (x == 2)] for k, g, x in rows]


def worlds(tier):
    ws = []
    for rows in rows_upto([[None, 1, 2], [None, 1, 2]], NSEQ[tier], multiset=False, with_id=True):
        ws.append({"tables": {"T": {"cols": COLS, "rows": derive(rows)}}})
        if len(rows) >= 2:
            # same rows, ids descending along the input order
            n = len(rows)
            rev = [[n - r[0] + 1, r[1], r[2]] for r in rows]
            ws.append({"tables": {"T": {"cols": COLS, "rows": derive(rev)}}})
    if tier == "thorough":
        # every sequence of exactly 3 rows over four row types (nulls in either column, a tie)
        for seq in itertools.product([(1, 1), (1, None), (None, 2), (2, 2)], repeat=3):
            rows = [[i + 1, g, x] for i, (g, x) in enumerate(seq)]
            ws.append({"tables": {"T": {"cols": COLS, "rows": derive(rows)}}})
    for rows in ADV:
        ws.append({"tables": {"T": {"cols": COLS, "rows": derive(rows)}}})
    return ws


def c(n, mode="src"):
    return ["col", "src", "T", n] if mode == "src" else ["col", "C", n]


def mark(t, desc, nl):
    if nl is not None:
        t = ["nulls_last" if nl else "nulls_first", t]
    if desc:
        t = ["desc", t]
    return t


# ---------------------------------------------------------------------------------------
# (arr)

def arrange_forms():
    forms = []
    singles = []
    for name in ("x", "g"):
        for desc in (False, True):
            for nl in (None, False, True):
                singles.append(mark(c(name), desc, nl))
    for desc in (False, True):
        singles.append(mark(["neg", c("x")], desc, True))
        singles.append(mark(["add", c("x"), c("g")], desc, False))
    for s in singles:
        forms.append([s])
        forms.append([s, c("k")])
    for d1, n1, d2, n2 in itertools.product((False, True), repeat=4):
        pair = [mark(c("g"), d1, n1), mark(c("x"), d2, n2)]
        forms.append(pair)
        forms.append(pair + [mark(c("k"), True, None)])
    return [["arrange", f] for f in forms]


ARR1 = arrange_forms()
ARR2 = [
    ["arrange", [mark(c("x"), True, True)]],
    ["arrange", [mark(c("g"), False, False)]],
    ["arrange", [c("k")]],
    ["arrange", [mark(c("k"), True, None)]],
    ["arrange", [mark(c("g"), True, True), mark(c("x"), False, False)]],
    ["arrange", [mark(["neg", c("x")], False, False), c("k")]],
]
FOLLOW = [
    ["filter", [["ge", c("x"), lit(1)]]],
    ["mutate", [["y", ["add", c("x"), lit(1)]]]],
    ["mutate", [["x", ["mul", c("x"), lit(-1)]]]],  # overwrite the sort key afterwards
    ["select", [c("x"), c("k")]],
    ["rename", [["x", "g"], ["g", "x"]]],
    ["alias"],
    ["slice_head", 2, 0],
    ["slice_head", 1, 1],
    ["slice_head", 2, 1],
]


def arr_alphabet(max_follow):
    def alphabet(st, hist):
        kinds = [e[0] for e in hist[1:]]
        n_arr = kinds.count("arrange")
        n_follow = len(kinds) - n_arr
        if not kinds:
            return ARR1
        out = []
        if kinds == ["arrange"]:
            out += ARR2
        if n_follow < max_follow and kinds[-1] != "alias":
            out += FOLLOW
        elif n_follow < max_follow:
            out += [e for e in FOLLOW if e[0] == "slice_head"]
        return out
    return alphabet


# ---------------------------------------------------------------------------------------
# (win)

def order_specs(mode):
    k, x, g = c("k", mode), c("x", mode), c("g", mode)
    return [
        [k],
        [mark(k, True, None)],
        [mark(x, False, True), k],
        [mark(x, True, False), mark(k, True, None)],
        [mark(g, False, False), mark(x, False, True), k],
    ]


def rank_only_specs(mode):
    x, g = c("x", mode), c("g", mode)
    return [[mark(x, False, True)], [mark(g, True, False)], [mark(g, False, True), mark(x, True, True)]]


def window_events(mode):
    x, g, b = c("x", mode), c("g", mode), c("b", mode)
    parts = [None, [g], [x]]
    ev = []

    def ck(part, order=None):
        d = {}
        if part is not None:
            d["partition_by"] = part
        if order is not None:
            d["arrange"] = order
        return d

    for part in parts:
        for o in order_specs(mode):
            ev.append(["row_number", ck(part, o)])
            ev.append(["rank", ck(part, o)])
            ev.append(["dense_rank", ck(part, o)])
            ev.append(["shift", x, 1, None, ck(part, o)])
            ev.append(["shift", x, -1, lit(0), ck(part, o)])
            ev.append(["cum_sum", x, ck(part, o)])
        for o in rank_only_specs(mode):
            ev.append(["rank", ck(part, o)])
            ev.append(["dense_rank", ck(part, o)])
        for agg in ("sum", "mean", "min", "max", "count"):
            ev.append([agg, x, ck(part)])
        ev.append(["count_star", ck(part)])
        ev.append(["any", b, ck(part)])
        ev.append(["all", b, ck(part)])
        # window / aggregate functions nested inside an element-wise expression
        k_ = c("k", mode)
        ev.append(["sub", x, ["mean", x, ck(part)]])
        ev.append(["add", ["row_number", ck(part, [["desc", k_]])], lit(0)])
        ev.append(["fill_null", ["shift", x, -1, None, ck(part, [k_])], lit(-1)])
    return [["mutate", [["w", e]]] for e in ev]


WIN_SRC = window_events("src")
WIN_C = window_events("C")
PRE0 = [
    ["filter", [["ge", c("x"), lit(1)]]],
    ["arrange", [c("k")]],
    ["rename", [["x", "xx"]]],
    ["group_by", [c("g")]],
]
POST = [
    ["filter", [["gt", Cn("k"), lit(1)]]],
    ["filter", [["ge", Cn("w"), lit(1)]]],
    ["select", [Cn("k"), Cn("w")]],
    ["ungroup"],
    ["slice_head", 2, 0],
    ["alias"],
]
POST_ALIAS = [["filter", [["gt", Cn("k"), lit(1)]]], ["filter", [["ge", Cn("w"), lit(1)]]]]
# the window column is hidden, rows are filtered, and the hidden column is used again
# through the reference taken while it was visible (SQL has to refuse the filter or
# evaluate the window function before it)
SELECT_HIDE = ["select", [Cn("k"), Cn("x")]]
FILTER_AFTER_HIDE = ["filter", [["gt", Cn("k"), lit(1)]]]


def win_alphabet(st, hist):
    kinds = [e[0] for e in hist[1:]]
    if "mutate" not in kinds:
        if not kinds:
            return PRE0 + WIN_SRC
        if kinds in (["filter"], ["rename"], ["group_by"]):
            return WIN_SRC
        if kinds == ["arrange"]:
            return [["slice_head", 2, 0]] + WIN_SRC
        if kinds == ["arrange", "slice_head"]:
            return [["alias"]] + WIN_SRC  # without alias SQL has to refuse
        if kinds == ["arrange", "slice_head", "alias"]:
            return WIN_C
        return []
    i_mut = kinds.index("mutate")
    after = kinds[i_mut + 1:]
    if not after:
        return POST + [SELECT_HIDE]
    if after == ["alias"]:
        return POST_ALIAS
    if after == ["select"] and hist[-1] == SELECT_HIDE:
        return [FILTER_AFTER_HIDE, ["alias", None, True]]
    if after == ["select", "alias"] and hist[-2] == SELECT_HIDE:
        return [FILTER_AFTER_HIDE]
    if after[-1] == "filter" and SELECT_HIDE in hist:
        return [["mutate", [["v", ["col", "at", i_mut + 1, "w"]]]], ["arrange", [["nulls_last", ["col", "at", i_mut + 1, "w"]], Cn("k")]]]
    return []


# ---------------------------------------------------------------------------------------

# ---------------------------------------------------------------------------------------
# (ties) order-sensitive window functions whose arrange= keys have ties: the result must be the
# one of SOME order that is consistent with the keys (every way of breaking the ties is
# admissible).  The admissible set is computed with the reference model by appending a tie-break
# column holding each permutation of the rows to arrange=.

TIE_COLS = [["k", "int"], ["g", "int"], ["x", "int"], ["v", "int"], ["tb", "int"]]
TIE_TABLES = [
    [[1, 1, 1, 10], [2, 1, 1, 20], [3, 1, 2, 30]],  # one tie pair
    [[1, 1, 1, 10], [2, 1, 1, 20], [3, 1, 1, 30]],  # all tied
    [[1, 1, 2, 5], [2, 2, 1, 7], [3, 1, 2, None], [4, 2, 1, 1]],  # a tie in each partition
    [[1, 1, None, 1], [2, 1, None, 2], [3, 1, 3, 4], [4, 1, 3, 8]],  # tied nulls and tied values
]


def tie_terms():
    tx, tv, tg, tk = (["col", "src", "T", n] for n in ("x", "v", "g", "k"))
    out = []
    for oname, order in (("x", [["nulls_last", tx]]), ("x.desc", [["desc", ["nulls_first", tx]]]), ("g,x", [tg, ["nulls_last", tx]])):
        for pname, part in (("-", None), ("g", [tg])):
            ck = {"arrange": order}
            if part:
                ck["partition_by"] = part
            out.append((f"cum_sum(v)[{oname};{pname}]", lambda o, ck=ck: ["cum_sum", tv, {**ck, "arrange": o}], order))
            out.append((f"shift(v,1)[{oname};{pname}]", lambda o, ck=ck: ["shift", tv, 1, None, {**ck, "arrange": o}], order))
            out.append((f"row_number[{oname};{pname}]", lambda o, ck=ck: ["row_number", {**ck, "arrange": o}], order))
            # (one function per term: two functions of one expression may break the same ties differently -
            # SQL backends append rand() to the order of cum_sum -, which the property allows)
            out.append((f"shift(v,-1,0)[{oname};{pname}]", lambda o, ck=ck: ["shift", tv, -1, ["lit", 0], {**ck, "arrange": o}], order))
            out.append((f"cum_sum(k)[{oname};{pname}]", lambda o, ck=ck: ["cum_sum", tk, {**ck, "arrange": o}], order))
    return out


def ties_part(stats, vs, only=None):
    import warnings

    import pydiverse.transform as pdt

    from .. import compare as C
    from .. import impl as I
    from .. import refmodel as M
    from .. import world as W

    tb = ["col", "src", "T", "tb"]
    for ti, rows in enumerate(TIE_TABLES):
        n = len(rows)
        base_world = {"tables": {"T": {"cols": TIE_COLS, "rows": [r + [i] for i, r in enumerate(rows)]}}}
        for label, mk, order in tie_terms():
            if only is not None and only != (ti, label):
                continue
            # admissible results: one per way of breaking the ties
            admissible = set()
            for perm in itertools.permutations(range(n)):
                w = {"tables": {"T": {"cols": TIE_COLS, "rows": [r + [perm[i]] for i, r in enumerate(rows)]}}}
                mdl = M.Model(w)
                st = mdl.run([["source", "T"], ["mutate", [["w", mk(order + [tb])]]]])[-1]
                names = st.names()
                ki, wi = names.index("k"), names.index("w")
                admissible.add(tuple(sorted((r[ki], C.norm_cell(r[wi])) for r in st.frame_rows())))
            stats["tie_admissible_results"] += len(admissible)
            for b in W.BACKENDS:
                stats["states"] += 1
                stats["transitions"] += 1
                built = W.build(base_world, b)
                try:
                    ctx = I.Ctx(built)
                    ctx.tables = [built.tables["T"]]
                    with warnings.catch_warnings():
                        warnings.simplefilter("ignore")
                        try:
                            df = built.tables["T"] >> pdt.mutate(w=I.build_expr(mk(order), ctx)) >> pdt.export(pdt.Polars())
                        except Exception as e:  # noqa: BLE001
                            vs.append(tie_violation(b, ti, label, f"exception:{X.exc_label(e)}", {"message": str(e)[:300]}))
                            continue
                    got = tuple(sorted((k_, C.norm_cell(w_)) for k_, w_ in zip(df["k"].to_list(), df["w"].to_list())))
                    stats["traces_validated"] += 1
                    if got not in admissible:
                        vs.append(tie_violation(b, ti, label, "no-admissible-order", {"got": str(got), "admissible": [str(a) for a in sorted(admissible, key=str)][:8],
                                                                                        "rows": rows}))
                finally:
                    built.close()


def tie_violation(backend, ti, label, symptom, detail):
    return {"invariant": "ties:result-of-some-consistent-order", "backend": backend, "symptom": symptom, "world": {"tables": {}},
            "history": [["ties", ti, label]], "detail": detail, "class": f"ties:result-of-some-consistent-order|{backend}|{label}|{symptom}",
            "count": 1, "py": f"table {ti}: mutate(w={label})", "params": {"part": "ties", "table": ti, "label": label}}


def make_explorer(world, part="arr", max_follow=1):
    if part == "arr":
        return X.Explorer(world, alphabet=arr_alphabet(max_follow), checks=[], depth=2 + max_follow,
                          oracle="model", names="list")
    return X.Explorer(world, alphabet=win_alphabet, checks=[], depth=6, oracle="model", names="list")


def plan(tier):
    """-> list of (part, world index, max_follow)"""
    ws = worlds(tier)
    out = []
    for wi, w in enumerate(ws):
        n = len(w["tables"]["T"]["rows"])
        out.append(("arr", wi, 1))
        out.append(("win", wi, 0))
        if tier == "thorough" and wi >= len(ws) - len(ADV):
            out.append(("arr2", wi, 2))
    return out


def tasks(tier):
    out = []
    for part, wi, mf in plan(tier):
        nfirst = len(ARR1) if part.startswith("arr") else len(PRE0 + WIN_SRC)
        step = 16 if tier == "quick" else 24
        for i in range(0, nfirst, step):
            out.append({"part": part, "world": wi, "max_follow": mf, "first": list(range(i, i + step))})
    out.append({"part": "ties"})
    return out


def run_task(task, tier):
    if task["part"] == "ties":
        from collections import Counter

        stats, vs = Counter(), []
        ties_part(stats, vs)
        return {"stats": dict(stats), "outcomes": {}, "levels": {}, "violations": vs, "samples": []}
    w = worlds(tier)[task["world"]]
    part = "arr" if task["part"].startswith("arr") else "win"
    if task["part"] == "arr2":
        # only the histories with exactly two follow-ups are new; the explorer enumerates
        # the shallower ones again (they are cheap on <= 2 rows)
        pass
    return base.run_history_task(lambda ww: make_explorer(ww, part, task["max_follow"]), w, [["source", "T"]],
                                 task["first"], params={"part": part, "max_follow": task["max_follow"]})


def recheck(rec):
    p = rec.get("params") or {}
    if p.get("part") == "ties":
        from collections import Counter

        stats, vs = Counter(), []
        ties_part(stats, vs, only=(p["table"], p["label"]))
        return [v for v in vs if v["class"] == rec["class"]]
    return base.recheck_history(lambda ww: make_explorer(ww, p.get("part", "arr"), p.get("max_follow", 1)), rec)


def describe(tier):
    return {
        "ties": {"tables": len(TIE_TABLES), "window_terms": len(tie_terms()),
                 "oracle": "the (k, w) pairs of the backend equal the reference-model result for at least one way of breaking the ties (all n! tie-break permutations enumerated)"},
        "arr": {
            "first_arrange_forms": len(ARR1),
            "second_arrange_forms": [T.py_event(e) for e in ARR2],
            "follow_ups": [T.py_event(e) for e in FOLLOW],
            "sample_forms": [T.py_event(e) for e in ARR1[::9]],
            "shape": "arrange [arrange] follow-up{0..1}" + (" (follow-up{0..2} on the adversarial tables)" if tier == "thorough" else ""),
        },
        "win": {
            "window_events": len(WIN_SRC),
            "functions": "row_number rank dense_rank shift(+1) shift(-1, fill) cum_sum sum mean min max count count() any all",
            "partition": "none | partition_by=g | partition_by=x | enclosing group_by(g) | partition_by + enclosing group",
            "order": [T.py_expr(["row_number", {"arrange": o}]) for o in order_specs("src")],
            "hidden_reuse": "window column hidden by select, rows filtered (directly / after alias(keep_col_refs=True)), hidden column reused through its old reference in mutate / arrange",
            "positions": "first verb; after filter / rename / group_by / arrange; after arrange>>slice_head (refused on SQL) and after arrange>>slice_head>>alias; before filter (on k / on the window column, direct and after alias), select, ungroup, slice_head",
            "sample_events": [T.py_event(e) for e in WIN_SRC[::17]],
        },
        "input_family": f"every sequence of 0..{NSEQ[tier]} rows over g,x in {{null,1,2}} (b := x==2), each with ids ascending and descending along the input order, "
                        + ("every sequence of 3 rows over the row types (1,1),(1,null),(null,2),(2,2), " if tier == "thorough" else "")
                        + "plus 8 adversarial tables (ties, null runs)",
        "n_worlds": len(worlds(tier)),
        "backends": ["polars", "sqlite"],
        "oracle": "reference model: exact row sequence after arrange (polars: always, by stability; SQLite: when the keys are total), window value per row, rows neither dropped nor reordered",
        "regime": "tree",
        "assumptions": ["reference model", "engines trusted", "null keys only with explicit nulls_first/nulls_last (DESIGN 4.5)"],
    }
