"""C14 - ill-formed pipelines are rejected when built, with the documented error.

(reject)   every rejection rule x every syntactic position (top level, nested in
           arithmetic, in a when-condition, in a then-value, in a context argument, via
           C. and via a table reference) is probed after every benign prefix history up to
           the depth bound; the verb call must raise the documented class on both
           backends, and the input table must still export what it exported before;
(converse) every history of the full alphabet that all verb calls accept must export on
           polars without an internal error;
(misc)     join / union across backends is refused with TypeError."""

from __future__ import annotations

import warnings

import pydiverse.transform as pdt

from .. import compare as C
from .. import explore as X
from .. import refmodel as M
from .. import terms as T
from .. import world as W
from . import base
from .common import ADV_R, F_ADV, Cn, full_alphabet, full_world, lit

PROPERTY = "C14"
PREFIX_DEPTH = {"quick": 2, "thorough": 3}
CONVERSE_DEPTH = {"quick": 3, "thorough": 4}

WORLD = {"tables": {
    "T": {"cols": [["k", "int"], ["g", "int"], ["x", "int"], ["b", "bool"], ["s", "str"], ["w_s", "int"]],
          "rows": [[1, 1, 5, True, "a", 0], [2, 1, None, None, "b", 0], [3, None, 2, False, None, 0]]},
    "R": {"cols": [["k", "int"], ["w", "int"]], "rows": ADV_R},
    "U": {"cols": [["k", "int"], ["g", "int"], ["x", "int"], ["b", "bool"], ["s", "str"], ["w_s", "int"]], "rows": [[9, 1, 1, True, "z", 0]]},
}}


def src(t, n):
    return ["col", "src", t, n]


x, g, k, b, s = (src("T", n) for n in ("x", "g", "k", "b", "s"))

PREFIX = [
    ["filter", [["ge", k, lit(1)]]],
    ["mutate", [["y", ["add", x, lit(1)]]]],
    ["mutate", [["s", ["add", s, lit("!")]]]],  # overwrite: T.s becomes a hidden column
    ["arrange", [k]],
    ["group_by", [g]],
    ["alias", None, True],
    ["rename", [["b", "bb"]]],
    ["join", {"src": "R"}, "left", [["eq", k, src("R", "k")]]],
    ["select", [k, g, x, b, s]],  # hides w_s
    ["slice_head", 2, 0],
    ["ungroup"],
    ["mutate", [["m", ["sum", x]]]],
]


def positions(bad, *, bool_result=False):
    """embed an ill-formed int-valued (or bool-valued) sub-expression at every position"""
    out = [("top", bad)]
    if bool_result:
        out.append(("nested", ["and", bad, b]))
        out.append(("when-cond", ["case", [[bad, lit(1)]], lit(0)]))
        out.append(("then-value", ["case", [[b, bad]], None]))
        out.append(("ctx-filter", ["sum", x, {"filter": [bad]}]))
    else:
        out.append(("nested", ["mul", bad, lit(2)]))
        out.append(("when-cond", ["case", [[["gt", bad, lit(1)], lit(1)]], lit(0)]))
        out.append(("then-value", ["case", [[b, bad]], lit(0)]))
        out.append(("ctx-filter", ["sum", x, {"filter": [["gt", bad, lit(0)]]}]))
        out.append(("ctx-arrange", ["row_number", {"arrange": [bad]}]))
    return out


def probes_for(ex, hist, mstates):
    P = []
    # R1 type error (int + str), via table references and via C.
    for label, e in positions(["add", x, s]) + positions(["add", Cn("x"), Cn("s")]):
        P.append(["mutate", [["z", e]]])
    P.append(["filter", [["gt", ["add", x, s], lit(1)]]])
    P.append(["arrange", [["add", Cn("x"), Cn("s")]]])
    P.append(["summarize", [["a", ["sum", ["add", x, s]]]]])
    P.append(["mutate", [["z", ["and", x, b]]]])  # int & bool
    P.append(["mutate", [["z", ["fill_null", x, lit("a")]]]])  # no common type
    P.append(["mutate", [["z", ["case", [[b, x]], s]]]])  # incompatible branches
    P.append(["mutate", [["z", ["cast", b, "str"]]]])  # cast outside the table
    P.append(["mutate", [["z", ["case", [[x, lit(1)]], lit(0)]]]])  # non-boolean when
    # ... with the condition given by name (resolved only inside the verb) while the branch values are typed
    P.append(["mutate", [["z", ["case", [[Cn("x"), lit(1)]], lit(0)]]]])
    P.append(["mutate", [["z", ["case", [[Cn("s"), x]], g]]]])
    P.append(["mutate", [["z", ["add", ["case", [[Cn("x"), lit(1)]], lit(0)], lit(1)]]]])
    P.append(["filter", [["eq", ["case", [[Cn("k"), lit(1)]], lit(0)], lit(1)]]])
    P.append(["summarize", [["a", ["sum", x, {"filter": [Cn("k")]}]]]])
    P.append(["mutate", [["z", ["max", x, {"filter": [Cn("s")]}]]]])
    P.append(["arrange", [["case", [[Cn("x"), k]], g]]])
    # R2 non-boolean filter
    P += [["filter", [["add", x, lit(1)]]], ["filter", [s]], ["filter", [Cn("x")]], ["filter", [b, ["neg", x]]]]
    # R3 non-boolean on / R6 window or aggregate in on
    P.append(["join", {"src": "R"}, "inner", [["add", k, src("R", "k")]]])
    P.append(["join", {"src": "R"}, "inner", [["eq", k, ["max", src("R", "k")]]]])
    P.append(["join", {"src": "R"}, "left", [["eq", ["row_number", {"arrange": [k]}], src("R", "k")]]])
    # R4 window / aggregate in filter (every position that yields a boolean)
    win = ["gt", ["row_number", {"arrange": [k]}], lit(1)]
    P += [["filter", [win]], ["filter", [["and", win, b]]], ["filter", [["eq", ["case", [[win, lit(1)]], lit(0)], lit(1)]]],
          ["filter", [["case", [[b, win]], None]]]]
    P.append(["filter", [["gt", ["sum", x], lit(1)]]])
    P.append(["filter", [["gt", ["sum", Cn("x")], lit(1)]]])
    P.append(["filter", [["is_null", ["shift", x, 1, None, {"arrange": [k]}]]]])
    # R5 window in summarize
    P.append(["summarize", [["a", ["row_number", {"arrange": [k]}]]]])
    P.append(["summarize", [["a", ["add", ["sum", x], ["rank", {"arrange": [k]}]]]]])
    P.append(["summarize", [["a", ["shift", Cn("x"), 1, None, {"arrange": [k]}]]]])
    # R7 nested aggregate / window
    P.append(["mutate", [["z", ["sum", ["max", x]]]]])
    P.append(["mutate", [["z", ["shift", ["sum", x], 1, None, {"arrange": [k]}]]]])
    P.append(["mutate", [["z", ["add", ["max", ["cum_sum", x, {"arrange": [k]}]], lit(1)]]]])
    P.append(["summarize", [["a", ["max", ["sum", x]]]]])
    P.append(["mutate", [["z", ["sum", x, {"filter": [["gt", ["max", x], lit(1)]]}]]]])
    # R8 non-aggregated non-grouping column in summarize
    P.append(["summarize", [["a", x]]])
    P.append(["summarize", [["a", ["add", x, ["sum", x]]]]])
    P.append(["summarize", [["a", ["add", ["sum", x], x]]]])  # the plain column after the aggregate
    P.append(["summarize", [["a", ["sub", ["max", x], Cn("k")]]]])
    P.append(["summarize", [["a", ["case", [[["gt", ["max", x], lit(3)], k]], None]]]])
    P.append(["summarize", [["a", ["hmin", ["min", x], k]]]])
    P.append(["summarize", [["a", ["case", [[b, ["sum", x]]], lit(0)]]]])
    P.append(["summarize", [["a", Cn("k")]]])
    # R9 unknown columns
    for v in ("mutate", "summarize"):
        P.append([v, [["z", ["add", Cn("nosuch"), lit(1)]]]])
    P.append(["filter", [["gt", Cn("nosuch"), lit(1)]]])
    P.append(["arrange", [Cn("nosuch")]])
    P.append(["select", [Cn("nosuch")]])
    P.append(["group_by", [Cn("nosuch")]])
    P.append(["mutate", [["z", ["add", src("U", "x"), lit(1)]]]])  # column of an unrelated table
    P.append(["mutate", [["z", ["sum", x, {"filter": [["gt", src("U", "x"), lit(1)]]}]]]])
    P.append(["mutate", [["z", ["row_number", {"arrange": [src("U", "k")]}]]]])
    P.append(["mutate", [["z", ["max", x, {"partition_by": [src("U", "g")]}]]]])
    P.append(["filter", [["case", [[b, ["gt", src("U", "x"), lit(1)]]], None]]])
    P.append(["select", [src("U", "x")]])
    P.append(["group_by", [src("U", "g")]])
    P.append(["rename", [["nosuch", "n2"]]])
    # R10 re-select / group_by of a hidden column
    P.append(["select", [src("T", "w_s")]])
    P.append(["select", [s]])
    P.append(["group_by", [s]])
    # R11 duplicate name by rename, R12 by a user suffix
    P.append(["rename", [["x", "g"]]])
    P.append(["rename", [["x", "q"], ["g", "q"]]])  # two columns renamed to one new name
    P.append(["rename", [[x, "q"], ["k", "q"], ["g", "g2"]]])
    P.append(["select", [x, k, x]])  # a column selected twice
    P.append(["select", [Cn("k"), k]])
    P.append(["rename", [[x, "k"], [g, "k"]]])
    P.append(["join", {"src": "R"}, "inner", [["eq", k, src("R", "k")]], {"suffix": "_s"}])  # w + _s == w_s
    # R13 grouped / same-origin tables, full join with a non-equality
    P.append(["join", {"src": "R"}, "inner", [["eq", k, src("R", "k")]]])
    P.append(["join", {"src": "R", "hist": [["group_by", [src("R", "k")]]]}, "inner", [["eq", k, src("R", "k")]]])
    P.append(["union", {"src": "U"}, False])
    P.append(["union", {"src": "U", "hist": [["group_by", [src("U", "g")]]]}, False])
    P.append(["join", {"src": "T", "hist": [["filter", [["gt", x, lit(1)]]]]}, "inner", [["eq", k, k]]])
    P.append(["join", {"src": "R"}, "full", [["lt", k, src("R", "k")]]])
    # R14 slice_head on a grouped table
    P.append(["slice_head", 1, 0])
    P.append(["slice_head", -1, 0])  # negative n / offset
    P.append(["slice_head", 2, -1])
    P.append(["rename", [[s, "q"]]])  # rename of a hidden column through its old reference
    # R15 ordering markers outside arrange
    P.append(["mutate", [["z", ["desc", x]]]])
    P.append(["mutate", [["z", ["add", ["nulls_last", x], lit(1)]]]])
    P.append(["filter", [["nulls_first", b]]])
    P.append(["summarize", [["a", ["sum", ["desc", x]]]]])
    P.append(["arrange", [["add", ["desc", x], lit(1)]]])
    P.append(["mutate", [["z", ["mul", ["add", ["desc", x], lit(1)], lit(2)]]]])  # nested two levels deep
    P.append(["mutate", [["z", ["row_number", {"arrange": [["add", ["nulls_last", x], lit(1)]]}]]]])
    return P


def check_usable(step):
    """after a rejected call the input table exports what it exported before"""
    vs = []
    if not isinstance(step.mres, M.Reject):
        return vs
    parent_state = step.mstates[-1]
    for bname, o in step.obs.items():
        if o.status != "verb-exc":
            continue
        tbl = step.parents.get(bname)
        if tbl is None or not parent_state.visible:
            continue
        step.explorer.stats["usable_after_rejection_checks"] += 1
        try:
            with warnings.catch_warnings():
                warnings.simplefilter("ignore")
                df = tbl >> pdt.export(pdt.Polars())
        except Exception as e:  # noqa: BLE001
            vs.append(X.violation(step, "input-usable-after-rejection", bname, f"exception:{X.exc_label(e)}", {"message": str(e)[:200]}))
            continue
        sym = C.diff_frames(parent_state.names(), parent_state.frame_rows(), list(df.columns), C.frame_rows(df),
                            ordered=step.explorer.model.seq_comparable(parent_state, bname))
        if sym:
            vs.append(X.violation(step, "input-usable-after-rejection", bname, sym, {}))
    return vs


def make_explorer(world, part="reject", depth=1):
    if part == "reject":
        return X.Explorer(world, alphabet=lambda st, hist: PREFIX, checks=[check_usable], depth=depth, oracle="model",
                          names="list", probes=probes_for)
    return X.Explorer(world, alphabet=lambda st, hist: full_alphabet(), checks=[], depth=depth, backends=("polars",),
                      oracle="none", names="list")


def tasks(tier):
    out = [{"part": "reject", "first": [i]} for i in range(len(PREFIX))]
    out.append({"part": "reject-root"})
    for wi in range(2):
        out += [{"part": "converse", "world": wi, "first": [i]} for i in range(len(full_alphabet()))]
    out.append({"part": "misc"})
    return out


def run_task(task, tier):
    if task["part"] == "misc":
        from . import c07

        res = c07.misc_backends()
        for v in res["violations"]:
            v["params"] = {"part": "misc"}
        return res
    if task["part"] == "reject-root":
        # the probes on the source table itself (depth 0)
        ex = make_explorer(WORLD, "reject", 0)
        try:
            mstates, ctxs = ex.replay_prefix([["source", "T"]])
            for pev in probes_for(ex, [["source", "T"]], mstates):
                ex.stats["probes"] += 1
                ex.transition([["source", "T"]], mstates, ctxs, pev)
            raw = ex.violations
            stats, outcomes, levels, samples = ex.stats, ex.outcomes, ex.level_counts, ex.samples
        finally:
            ex.close()
        from .. import minimise as MIN

        out = []
        for v in raw:
            v = dict(v)
            v["class"] = MIN.vclass(v)
            v["count"] = 1
            v["py"] = T.py_history(v["history"])
            v["params"] = {"part": "reject", "depth": 0}
            out.append(v)
        return {"stats": dict(stats), "outcomes": dict(outcomes), "levels": {str(a): n for a, n in levels.items()},
                "violations": out, "samples": samples}
    if task["part"] == "reject":
        d = PREFIX_DEPTH[tier]
        return base.run_history_task(lambda ww: make_explorer(ww, "reject", d), WORLD, [["source", "T"]], task["first"],
                                     params={"part": "reject", "depth": d})
    d = CONVERSE_DEPTH[tier]
    w = full_world(F_ADV[task["world"]])
    return base.run_history_task(lambda ww: make_explorer(ww, "converse", d), w, [["source", "T"]], task["first"],
                                 params={"part": "converse", "depth": d})


def recheck(rec):
    p = rec.get("params") or {}
    if p.get("part") == "misc":
        from . import c07

        return c07.misc_backends(rec["world"])["violations"]
    return base.recheck_history(lambda ww: make_explorer(ww, p.get("part", "reject"), p.get("depth", 1)), rec)


def describe(tier):
    ex_probes = probes_for(None, None, None)
    return {
        "reject": {
            "prefix_alphabet": [T.py_event(e) for e in PREFIX],
            "prefix_depth": PREFIX_DEPTH[tier],
            "ill_formed_probes_per_state": len(ex_probes),
            "rules": ["type error in an expression", "non-boolean filter / on / when", "window or aggregate in filter", "window in summarize",
                      "window/aggregate in on", "nested aggregate/window", "non-aggregated non-grouping column in summarize",
                      "unknown column (C. and foreign table, also in partition_by=/arrange=/filter=)", "re-select / group_by of a hidden column",
                      "duplicate name by rename / by user suffix", "join/union of grouped or same-origin tables, non-equality full join",
                      "slice_head on a grouped table", "ordering marker outside arrange"],
            "positions": "top level, nested in arithmetic, when-condition, then-value, filter= / arrange= / partition_by= arguments, via C. and via table references",
            "sample_probes": [T.py_event(e) for e in ex_probes[::7]],
            "oracle": "the reference model predicts the documented exception class of every probe in every state (or its value, where the state makes the probe well-formed); raised by the verb call on both backends; the input table exports the same frame afterwards",
        },
        "converse": {"alphabet": "the 34-event full alphabet", "depth": CONVERSE_DEPTH[tier], "worlds": 2, "backend": "polars",
                     "invariant": "every accepted history exports without an exception"},
        "regime": "tree",
        "assumptions": ["reference model (static types, function types, scoping rules)", "engines trusted"],
    }
