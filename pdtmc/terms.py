"""Helpers over event terms: kinds (for violation classes) and a python pretty printer
(for stand-alone reproductions)."""

from __future__ import annotations

from . import refmodel as M

ORDERED_WINDOWS = ("row_number", "shift", "cum_sum")


def expr_kind(t) -> str:
    """coarse kind of an expression term: ewise | agg | window-ordered | window-rank"""
    hs = M.term_heads(t)
    if any(h in ORDERED_WINDOWS for h in hs):
        return "ordwin"
    if any(h in ("rank", "dense_rank") for h in hs):
        return "rankwin"
    if any(h in M.AGGS for h in hs):
        return "agg"
    return "ewise"


def _refs_new(t, hist_names):
    return False


def kind(ev) -> str:
    """event -> kind string used in violation classes (DESIGN 2.5)"""
    k = ev[0]
    if k in ("mutate", "summarize"):
        kinds = sorted({expr_kind(e) for _, e in ev[1]}) or ["empty"]
        return f"{k}:{'+'.join(kinds)}"
    if k == "filter":
        return "filter"
    if k == "slice_head":
        return "slice_head" + ("+offset" if ev[2] else "")
    if k == "join":
        side = ev[1]
        sk = ">".join(kind(e) for e in side.get("hist", []))
        return f"join:{ev[2]}" + (f"[{sk}]" if sk else "")
    if k == "union":
        side = ev[1]
        sk = ">".join(kind(e) for e in side.get("hist", []))
        return "union" + (":distinct" if ev[2] else "") + (f"[{sk}]" if sk else "")
    if k == "alias":
        return "alias" + (":keep" if len(ev) > 2 and ev[2] else "")
    if k == "collect":
        return "collect" + (":nokeep" if len(ev) > 1 and not ev[1] else "")
    if k == "group_by":
        return "group_by" + (":add" if len(ev) > 2 and ev[2] else "")
    if k == "source":
        return "source"
    return k


def kinds(history) -> list[str]:
    return [kind(e) for e in history if e[0] != "source"]


# --------------------------------------------------------------------------------------
# pretty printer

_BIN = {
    "add": "+", "sub": "-", "mul": "*", "truediv": "/", "floordiv": "//", "mod": "%", "pow": "**",
    "eq": "==", "ne": "!=", "lt": "<", "le": "<=", "gt": ">", "ge": ">=", "and": "&", "or": "|", "xor": "^",
}
_DT = {
    "int": "pdt.Int64()", "float": "pdt.Float64()", "str": "pdt.String()", "bool": "pdt.Bool()",
    "date": "pdt.Date()", "datetime": "pdt.Datetime()",
}


def _lit(v):
    from . import world as W

    v = W.dec(v)
    return repr(v)


def py_expr(t, cur="t") -> str:
    h = t[0]
    if h == "lit":
        if len(t) > 2:
            return f"pdt.lit({_lit(t[1])}, {_DT.get(t[2], 'pdt.' + t[2].capitalize() + '()')})"
        return f"pdt.lit({_lit(t[1])})"
    if h == "col":
        if t[1] == "src":
            return f"{t[2]}.{t[3]}"
        if t[1] in ("C", "str"):
            return f"C.{t[2]}" if t[1] == "C" else repr(t[2])
        if t[1] == "at":
            return f"t{t[2]}.{t[3]}"
        if t[1] == "right":
            return f"right.{t[2]}"
        if t[1] == "rat":
            return f"r{t[2]}.{t[3]}"
    if h == "pool":
        return f"E{t[1]}"
    if h in _BIN:
        return f"({py_expr(t[1])} {_BIN[h]} {py_expr(t[2])})"
    if h == "neg":
        return f"(-{py_expr(t[1])})"
    if h == "pos":
        return f"(+{py_expr(t[1])})"
    if h == "invert":
        return f"(~{py_expr(t[1])})"
    if h in ("desc", "asc", "nulls_first", "nulls_last"):
        m = {"desc": "descending", "asc": "ascending"}.get(h, h)
        return f"{py_expr(t[1])}.{m}()"
    if h in ("coalesce", "hmax", "hmin", "hsum", "hany", "hall"):
        f = {"coalesce": "pdt.coalesce", "hmax": "pdt.max", "hmin": "pdt.min", "hsum": "pdt.sum", "hany": "pdt.any", "hall": "pdt.all"}[h]
        return f"{f}({', '.join(py_expr(a) for a in t[1:])})"
    if h == "case":
        s = ""
        for i, (c, v) in enumerate(t[1]):
            s += ("pdt.when" if i == 0 else ".when") + f"({py_expr(c)}).then({py_expr(v)})"
        if len(t) > 2 and t[2] is not None:
            s += f".otherwise({py_expr(t[2])})"
        return s
    if h == "case_ext":
        s = py_expr(t[1])
        for c, v in t[2]:
            s += f".when({py_expr(c)}).then({py_expr(v)})"
        if len(t) > 3 and t[3] is not None:
            s += f".otherwise({py_expr(t[3])})"
        return s
    if h == "map":
        items = []
        for key, val in t[2]:
            if isinstance(key, list) and key and key[0] == "tuple":
                ks = "(" + ", ".join(py_expr(k) for k in key[1:]) + ",)"
            else:
                ks = py_expr(key)
            items.append(f"{ks}: {py_expr(val)}")
        d = f", default={py_expr(t[3])}" if len(t) > 3 and t[3] is not None else ""
        return f"{py_expr(t[1])}.map({{{', '.join(items)}}}{d})"
    if h == "cast":
        return f"{py_expr(t[1])}.cast({_DT.get(t[2], 'pdt.' + t[2].capitalize() + '()')})"
    if h == "count_star":
        return f"pdt.count({_py_ctx(t[1] if len(t) > 1 else None)})"
    if h in ("row_number", "rank", "dense_rank"):
        return f"pdt.{h}({_py_ctx(t[1] if len(t) > 1 else None)})"
    if h == "shift":
        args = [repr(t[2])]
        if len(t) > 3 and t[3] is not None:
            args.append(py_expr(t[3]))
        c = _py_ctx(t[4] if len(t) > 4 else None)
        if c:
            args.append(c)
        return f"{py_expr(t[1])}.shift({', '.join(args)})"
    if h.startswith("str_"):
        args = [py_expr(a) for a in t[2:] if not isinstance(a, dict)]
        kw = [f"{k}={v!r}" for a in t[2:] if isinstance(a, dict) for k, v in a.items()]
        return f"{py_expr(t[1])}.str.{h[4:]}({', '.join(args + kw)})"
    if h.startswith("dt_"):
        return f"{py_expr(t[1])}.dt.{h[3:]}()"
    # generic method call, possibly with context kwargs
    args = []
    for a in t[2:]:
        if isinstance(a, dict):
            c = _py_ctx(a)
            if c:
                args.append(c)
        else:
            args.append(py_expr(a))
    return f"{py_expr(t[1])}.{h}({', '.join(args)})"


def _py_ctx(d) -> str:
    if not d:
        return ""
    parts = []
    for k in ("partition_by", "arrange", "filter"):
        if k in d:
            parts.append(f"{k}=[{', '.join(py_expr(x) for x in d[k])}]")
    return ", ".join(parts)


def py_side(side) -> str:
    if "at" in side:
        s = f"<table after {side['at']} events> >> pdt.alias()"
        for e in side.get("hist", []):
            s += " >> " + py_event(e)
        return s
    s = side["src"]
    if side.get("alias"):
        s += " >> pdt.alias()"
    for e in side.get("hist", []):
        s += " >> " + py_event(e)
    return s


def py_event(ev) -> str:
    k = ev[0]
    if k in ("select", "drop", "arrange", "filter"):
        return f"pdt.{k}({', '.join(py_expr(c) for c in ev[1])})"
    if k == "rename":
        items = [f"{py_expr(o) if isinstance(o, list) else repr(o)}: {n!r}" for o, n in ev[1]]
        return f"pdt.rename({{{', '.join(items)}}})"
    if k in ("mutate", "summarize"):
        return f"pdt.{k}({', '.join(f'{n}={py_expr(e)}' for n, e in ev[1])})"
    if k == "slice_head":
        return f"pdt.slice_head({ev[1]}, offset={ev[2]})"
    if k == "group_by":
        add = ", add=True" if len(ev) > 2 and ev[2] else ""
        return f"pdt.group_by({', '.join(py_expr(c) for c in ev[1])}{add})"
    if k == "ungroup":
        return "pdt.ungroup()"
    if k == "join":
        opts = ev[4] if len(ev) > 4 else {}
        sfx = f", suffix={opts['suffix']!r}" if opts.get("suffix") is not None else ""
        if ev[2] == "cross":
            return f"pdt.cross_join({py_side(ev[1])}{sfx})"
        on = ", ".join(py_expr(o) if isinstance(o, list) else repr(o) for o in ev[3])
        return f"pdt.join({py_side(ev[1])}, [{on}], {ev[2]!r}{sfx})"
    if k == "union":
        return f"pdt.union({py_side(ev[1])}, distinct={bool(ev[2])})"
    if k == "alias":
        kw = ", keep_col_refs=True" if len(ev) > 2 and ev[2] else ""
        return f"pdt.alias({ev[1]!r}{kw})" if (len(ev) > 1 and ev[1]) or kw else "pdt.alias()"
    if k == "collect":
        return "pdt.collect()" if (len(ev) < 2 or ev[1]) else "pdt.collect(keep_col_refs=False)"
    return f"<{k}>"


def py_history(history) -> str:
    out = [history[0][1]]
    out += [py_event(e) for e in history[1:]]
    return "\n    >> ".join(out)


def repro_py(world, history, backend) -> str:
    """A stand-alone script reproducing ``history`` on ``backend`` (readable, best effort;
    the authoritative replay is ``python -m pdtmc.replay``)."""
    from . import world as W

    lines = [
        "import datetime, polars as pl, sqlalchemy as sqa",
        "import pydiverse.transform as pdt",
        "from pydiverse.transform import C",
    ]
    if backend == "sqlite":
        lines.append("engine = sqa.create_engine('sqlite://')")
    for name, t in world["tables"].items():
        cols = [c for c, _ in t["cols"]]
        rows = W.table_rows(t)
        data = {c: [r[i] for r in rows] for i, c in enumerate(cols)}
        schema = {c: W.TYPES[ty][0] for c, ty in t["cols"]}
        lines.append(f"df_{name} = pl.DataFrame({data!r}, schema={ {c: str(s) for c, s in schema.items()}!r})".replace("'Int64'", "pl.Int64").replace("'Float64'", "pl.Float64").replace("'String'", "pl.String").replace("'Boolean'", "pl.Boolean").replace("'Date'", "pl.Date"))
        if backend == "sqlite":
            lines.append(f"df_{name}.write_database('{name}', engine, if_table_exists='replace')")
            lines.append(f"{name} = pdt.Table('{name}', pdt.SqlAlchemy(engine))")
        else:
            lines.append(f"{name} = pdt.Table(df_{name}, name='{name}')")
    lines.append("t0 = " + history[0][1])
    for i, e in enumerate(history[1:], 1):
        lines.append(f"t{i} = t{i - 1} >> {py_event(e)}")
    lines.append(f"print(t{len(history) - 1} >> pdt.export(pdt.Polars()))")
    return "\n".join(lines)
