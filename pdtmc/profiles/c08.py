"""C08 - SQL: a verb needing a subquery raises SubqueryError or is compiled correctly.

All histories over the clause-placement alphabet with ``alias()`` inserted or not before
every position.  Invariants: (1) polars never raises SubqueryError; (2) a verb call on
SQLite returns or raises SubqueryError; (3) an accepted history exports the same frame on
SQLite and polars (and as the reference model); (4) a verb refused with SubqueryError is
accepted when ``alias()`` is put directly before it; (5) histories of the simple class
never raise SubqueryError."""

from __future__ import annotations

import warnings

import pydiverse.transform as pdt

from .. import explore as X
from .. import impl as I
from .. import terms as T
from . import base
from .common import ADV_R, Cn, lit

PROPERTY = "C08"
DEPTH = {"quick": 3, "thorough": 3}  # parts A-C; the thorough tier adds part D (depth 4 over a core alphabet)
COLS = [["k", "int"], ["g", "int"], ["x", "int"]]
T_ROWS = [
    [[1, 1, 5], [2, 1, None], [3, None, 2], [4, 2, 2], [5, 2, 3]],
    [[1, 2, 3], [2, 2, 3], [3, 1, 1]],
]
U_ROWS = [[7, 1, 5], [8, None, 2], [1, 1, 5]]


def worlds(tier):
    return [{"tables": {"T": {"cols": COLS, "rows": r}, "R": {"cols": [["rk", "int"], ["w", "int"]], "rows": ADV_R},
                        "U": {"cols": COLS, "rows": U_ROWS}}} for r in T_ROWS]


kR = ["col", "src", "R", "rk"]
ALPHABET = [
    ["filter", [["gt", Cn("x"), lit(1)]]],
    ["mutate", [["e", ["add", Cn("x"), lit(1)]]]],
    ["mutate", [["w", ["row_number", {"arrange": [Cn("k")]}]]]],
    ["mutate", [["w", ["sum", Cn("x")]]]],
    ["group_by", [Cn("g")]],
    ["summarize", [["a1", ["sum", Cn("x")]]]],
    ["arrange", [Cn("k")]],
    ["slice_head", 2, 0],
    ["join", {"src": "R"}, "inner", [["eq", Cn("k"), kR]]],
    ["union", {"src": "U"}, False],
    ["filter", [["gt", Cn("w"), lit(1)]]],  # on a window column
    ["filter", [["gt", Cn("a1"), lit(2)]]],  # on an aggregate column
    ["mutate", [["v", ["add", Cn("w"), lit(1)]]]],  # reads a window column
    ["mutate", [["w2", ["max", Cn("w")]]]],  # window over a window column
    ["summarize", [["a2", ["max", Cn("w")]]]],  # aggregate over a window column
    ["summarize", [["a3", ["count_star"]], ["a4", ["sum", Cn("a1")]]]],  # aggregate over aggregates
    ["ungroup"],
    ["arrange", [["desc", ["nulls_last", Cn("x")]], Cn("k")]],
    ["slice_head", 2, 1],
    ["join", {"src": "R"}, "left", [["eq", Cn("k"), kR]]],
    ["join", {"src": "R"}, "full", [["eq", Cn("k"), kR]]],
    ["select", [Cn("k"), Cn("x")]],
    ["mutate", [["x", ["sub", lit(10), Cn("x")]]]],  # overwrite (order-reversing, so that a mix-up of old and new x shows)
    ["mutate", [["c", lit(1)]]],  # constant column (must not be padded with the constant by an outer join)
    ["mutate", [["w", ["case", [[["gt", Cn("x"), ["mean", Cn("x")]], lit(2)]], lit(0)]]]],  # window function only in a when-condition
    ["mutate", [["c", ["fill_null", Cn("x"), lit(0)]]]],  # not null for a row of nulls (also when hidden later, see the re-use probe)
    # the filter of the right operand of an inner join becomes part of the WHERE clause of the join
    ["join", {"src": "U", "hist": [["filter", [["gt", ["col", "src", "U", "x"], lit(2)]]]]}, "inner", [["eq", Cn("k"), ["col", "right", "k"]]]],
    # the right operand is itself a subquery
    ["union", {"src": "U", "hist": [["arrange", [["col", "src", "U", "k"]]], ["slice_head", 2, 0], ["alias"]]}, False],
    ["join", {"src": "R", "hist": [["arrange", [kR]], ["slice_head", 3, 0], ["alias"]]}, "left", [["eq", Cn("k"), ["col", "right", "rk"]]]],
]
ALIAS = ["alias"]
SIMPLE = {"filter:ewise", "mutate:ewise", "select", "rename", "arrange"}


def alphabet(st, hist):
    # a window column that was hidden meanwhile, used again through the reference taken
    # from the intermediate table where it was visible (disabled by the model when that
    # table has no visible column w)
    # (the same for the constant column c)
    reuse = [["mutate", [["v3", ["add", ["col", "at", i, hist[i][1][0][0]], lit(0)]]]] for i in range(1, len(hist) - 1)
             if hist[i][0] == "mutate" and hist[i][1][0][0] in ("w", "c")]
    if len(hist) > 1 and hist[-1][0] == "mutate" and hist[-1][1][0][0] == "v3":
        return []  # the probe ends the history
    if len(hist) > 1 and hist[-1][0] == "alias":
        return ALPHABET + reuse
    return [ALIAS] + ALPHABET + reuse


# part B: one verb deeper over a reduced alphabet, alias() only directly before the last verb
# (a hidden column that is still needed across the subquery: order key, old reference)
REDUCED = [
    ["arrange", [["desc", ["nulls_last", Cn("x")]], Cn("k")]],
    ["mutate", [["x", ["sub", lit(10), Cn("x")]]]],
    ["mutate", [["w", ["sum", Cn("x")]]]],
    ["slice_head", 2, 0],
    ["filter", [["gt", Cn("k"), lit(1)]]],
    ["select", [Cn("k"), Cn("x")]],
    ["summarize", [["a1", ["sum", Cn("x")]]]],
    ["join", {"src": "R"}, "left", [["eq", Cn("k"), kR]]],
    ["group_by", [Cn("g")]],
    # the source column through the reference of the source table: after an overwrite it is the
    # hidden original (the model disables it once the reference is out of scope)
    ["filter", [["gt", ["col", "src", "T", "x"], lit(2)]]],
    ["mutate", [["o", ["add", ["col", "src", "T", "x"], lit(0)]]]],
]
ALIAS_KEEP = ["alias", None, True]


def alphabet_b(depth):
    def f(st, hist):
        n = size(hist)
        out = list(REDUCED)
        if n == depth - 1 and hist[-1][0] != "alias":
            out = [ALIAS, ALIAS_KEEP] + out
        return out
    return f


def size(hist):
    # alias() and the final re-use probe of a hidden window column do not count
    return sum(1 for e in hist[1:] if e[0] != "alias" and not (e[0] == "mutate" and e[1][0][0] == "v3"))


def is_simple(hist):
    """element-wise mutate/filter, select, rename, arrange, at most one grouped summarize
    (with its group_by), and a final slice_head"""
    evs = hist[1:]
    n_sum = 0
    for i, e in enumerate(evs):
        k = T.kind(e)
        if k == "filter":
            k = "filter:ewise" if T.expr_kind(["and", *e[1]] if len(e[1]) > 1 else e[1][0]) == "ewise" else "filter:other"
        if k in SIMPLE:
            continue
        if k == "group_by" and n_sum == 0:
            continue
        if k == "summarize:agg" and n_sum == 0 and any(x[0] == "group_by" for x in evs[:i]):
            n_sum += 1
            continue
        if k.startswith("slice_head") and i == len(evs) - 1:
            continue
        return False
    # filters that reference aggregate / window columns are not element-wise filters of
    # the simple class when they come after a summarize - they are still allowed (HAVING)
    return True


def check_c08(step):
    vs = []
    po = step.obs.get("polars")
    so = step.obs.get("sqlite")
    if po is not None and po.exc is not None and X.exc_is(po.exc, "SubqueryError"):
        vs.append(X.violation(step, "polars-never-subquery-error", "polars", "exception:SubqueryError"))
    if so is not None and so.status == "refused" and X.exc_is(so.exc, "SubqueryError"):
        if is_simple(step.hist):
            vs.append(X.violation(step, "simple-class-never-refused", "sqlite", "exception:SubqueryError",
                                  {"message": str(so.exc)[:300]}))
        # (4) alias() directly before the refused verb makes it accepted
        parent = step.parents.get("sqlite")
        ctx = step.ctxs.get("sqlite")
        if parent is not None and step.event[0] != "alias":
            with warnings.catch_warnings():
                warnings.simplefilter("ignore")
                try:
                    # (an event that uses the reference of the source table needs the references kept)
                    # (plain alias() whenever the event does not use a reference of the main source table)
                    aliased = parent >> (pdt.alias(keep_col_refs=True) if any(m in __import__("json").dumps(step.event) for m in ('["col", "src", "T"', '["col", "at"')) else pdt.alias())
                    res = I.apply_event(aliased, step.event, ctx)
                    df = res >> pdt.export(pdt.Polars())
                    # and then it is compiled correctly: same frame as polars gave
                    if po is not None and po.status == "ok":
                        from .. import compare as C

                        mdl = step.explorer.model
                        ordered = mdl.seq_comparable(step.mres, "sqlite") and mdl.seq_comparable(step.mres, "polars")
                        sym = C.diff_frames(po.names, po.rows, list(df.columns), C.frame_rows(df), ordered=ordered)
                        if sym:
                            vs.append(X.violation(step, "alias-then-correct", "sqlite", sym,
                                                  {"polars": C.rows_json(po.rows), "sqlite_after_alias": C.rows_json(C.frame_rows(df))}))
                    step.explorer.stats["alias_retries_accepted"] += 1
                except Exception as e:  # noqa: BLE001
                    if X.exc_is(e, "SubqueryError"):
                        vs.append(X.violation(step, "alias-makes-accepted", "sqlite", "exception:SubqueryError",
                                              {"message": str(e)[:300]}))
                    elif X.exc_is(e, "NotSupportedError"):
                        step.explorer.stats["alias_retries_not_supported"] += 1
                    else:
                        vs.append(X.violation(step, "alias-makes-accepted", "sqlite", f"exception:{X.exc_label(e)}",
                                              {"message": str(e)[:300]}))
    return vs


# part C: a grouped table with a window column behind an alias(): the subquery that a following
# filter forces has to provide the grouping columns for the verbs after it
PART_C_ROOTS = [
    [["source", "T"], ["group_by", [Cn("g")]], ["mutate", [["w", ["row_number", {"arrange": [Cn("k")]}]]]], ["alias"]],
    [["source", "T"], ["group_by", [Cn("g")]], ["mutate", [["w", ["sum", Cn("x")]]]], ["select", [Cn("k"), Cn("x"), Cn("w")]], ["alias"]],
]


def make_explorer(world, depth=3, part="A"):
    if part == "C":
        return X.Explorer(world, alphabet=lambda st, hist: REDUCED + [["filter", [["gt", Cn("w"), lit(1)]]], ["ungroup"]], checks=[check_c08],
                          depth=depth, oracle="both", names="list", size=size)
    if part == "D":
        return X.Explorer(world, alphabet=core_alphabet, checks=[check_c08], depth=depth, oracle="both", names="list", size=size)
    if part == "B":
        return X.Explorer(world, alphabet=alphabet_b(depth), checks=[check_c08], depth=depth, oracle="both", names="list", size=size)
    return X.Explorer(world, alphabet=alphabet, checks=[check_c08], depth=depth, oracle="both", names="list", size=size)


N_FIRST = len(ALPHABET) + 1


# part D (thorough): one verb deeper than part A over the core of the clause-placement alphabet
CORE_IDX = [0, 2, 3, 4, 5, 6, 7, 8, 9, 10, 11, 12, 16, 19, 20, 22]


def core_alphabet(st, hist):
    core = [ALPHABET[i] for i in CORE_IDX]
    if len(hist) > 1 and hist[-1][0] == "alias":
        return core
    return [ALIAS] + core


def tasks(tier):
    out = []
    for wi in range(len(worlds(tier))):
        out += [{"world": wi, "first": [i]} for i in range(N_FIRST)]
    if tier == "thorough":
        out += [{"world": 0, "first": [i], "part": "D"} for i in range(len(CORE_IDX) + 1)]
    out += [{"world": 0, "first": [i], "part": "B"} for i in range(len(REDUCED))]
    out += [{"world": 0, "first": None, "part": "C", "root": i} for i in range(len(PART_C_ROOTS))]
    return out


def run_task(task, tier):
    w = worlds(tier)[task["world"]]
    part = task.get("part", "A")
    if part == "C":
        root = PART_C_ROOTS[task["root"]]
        d = size(root) + 2
        return base.run_history_task(lambda ww: make_explorer(ww, d, "C"), w, root, None, params={"depth": d, "part": "C"})
    d = DEPTH[tier] + (1 if part in ("B", "D") else 0)
    return base.run_history_task(lambda ww: make_explorer(ww, d, part), w, [["source", "T"]], task["first"],
                                 params={"depth": d, "part": part})


def recheck(rec):
    p = rec.get("params") or {}
    return base.recheck_history(lambda ww: make_explorer(ww, p.get("depth", 3), p.get("part", "A")), rec)


def describe(tier):
    return {
        "alphabet": [T.py_event(e) for e in ALPHABET],
        "alphabet_size": len(ALPHABET),
        "alias_masks": "alias() is an extra event allowed before every position (never twice in a row); the depth bound counts the other verbs, so all 2^D alias masks of every history are explored",
        "depth": DEPTH[tier],
        "part_B": {"alphabet": [T.py_event(e) for e in REDUCED], "depth": DEPTH[tier] + 1,
                   "alias": "only directly before the last verb"},
        "part_D": ({"alphabet": [T.py_event(ALPHABET[i]) for i in CORE_IDX], "depth": DEPTH[tier] + 1, "alias": "free before every position", "input": "first table"}
                   if tier == "thorough" else "thorough tier only"),
        "input_family": "2 adversarial tables (nulls, duplicates, ties)",
        "backends": ["polars", "sqlite"],
        "invariants": ["polars never raises SubqueryError", "SQLite verb call returns or raises SubqueryError",
                       "accepted => SQLite frame == polars frame == reference model",
                       "refused verb is accepted (and correct) with alias() directly before it",
                       "simple-class histories are never refused"],
        "references": "all columns referenced as C.<name> so that a history stays well-formed under every alias mask; plus mutate(v3=<table after the window mutate>.w + 0) to reuse a window column hidden meanwhile",
        "regime": "tree",
        "assumptions": ["engines trusted", "reference model (also used for order-totality)"],
    }
