"""C06 - join: exact row combinations, collision-free names, all columns reachable.

(rows)  join kind x predicate x preparation of either side, on every pair of small
        tables; oracle: reference model (exact multiset of row combinations with
        padding, names, order of columns); after every accepted join every source
        column of either input - visible or hidden - is probed through its original
        reference (``joined >> mutate(probe=L.v)``).
(names) name-collision configurations (visible/visible, visible/hidden, user suffix,
        table-name suffix, numeric suffix), each in 4 interpreter processes with different
        hash seeds (the suffix search iterates over a set of names)."""

from __future__ import annotations

import itertools

from .. import explore as X
from .. import terms as T
from . import base
from .common import lit, rows_upto

PROPERTY = "C06"
L_COLS = [["k", "int"], ["v", "int"]]
R_COLS = [["k", "int"], ["w", "int"]]
MAXROWS = {"quick": 1, "thorough": 2}
HASHSEEDS = [1, 2, 3, 4]

ADV_PAIRS = [
    ([[1, 1], [1, 2], [2, 1]], [[1, 1], [1, 2], [3, 1]]),  # duplicate keys on both sides
    ([[None, 1], [1, 2]], [[None, 1], [1, 1]]),  # null keys never match
    ([[1, 1], [2, 2]], []),  # empty right
    ([], [[1, 1], [2, 2]]),  # empty left
    ([[1, 1], [2, 2], [None, 2]], [[2, 2], [2, 1], [None, 2]]),
    ([[2, 2]], [[1, 1], [2, 1], [3, 2]]),
]


def row_worlds(tier):
    ws = []
    tabs = rows_upto([[None, 1, 2], [1, 2]], MAXROWS[tier])
    for lrows, rrows in itertools.product(tabs, tabs):
        ws.append({"tables": {"L": {"cols": L_COLS, "rows": lrows}, "R": {"cols": R_COLS, "rows": rrows}}})
    for lrows, rrows in ADV_PAIRS:
        ws.append({"tables": {"L": {"cols": L_COLS, "rows": lrows}, "R": {"cols": R_COLS, "rows": rrows}}})
    return ws


def src(t, n):
    return ["col", "src", t, n]


LPREP = [
    ["filter", [["gt", src("L", "v"), lit(1)]]],
    ["mutate", [["v", ["add", src("L", "v"), lit(1)]]]],  # hides L.v, new visible v
    ["select", [src("L", "k")]],  # hides v
    ["rename", [["k", "kk"]]],
    ["alias"],
    ["mutate", [["v", ["fill_null", src("L", "v"), lit(0)]]]],  # not null for a row of nulls (outer join padding)
]
RPREP = [
    None,
    {"hist": [["filter", [["gt", src("R", "w"), lit(1)]]]]},
    {"hist": [["mutate", [["w", ["add", src("R", "w"), lit(1)]]]]]},
    {"hist": [["select", [src("R", "k")]]]},
    {"hist": [["rename", [["w", "v"]]]]},  # name clash with the left v
    {"alias": True},
    {"hist": [["mutate", [["w", ["coalesce", src("R", "w"), lit(7)]]]]]},  # not null for a row of nulls
    {"hist": [["mutate", [["w", ["fill_null", src("R", "w"), lit(7)]]]], ["alias"]], "alias_last": True},  # ... behind an alias()
]


def join_events(lalias: bool, rpreps):
    """join events for a left table that was (not) aliased at step 1"""
    lk = ["col", "at", 1, "k"] if lalias else src("L", "k")
    lv = ["col", "at", 1, "v"] if lalias else src("L", "v")
    out = []
    for rp in rpreps:
        side = {"src": "R"}
        ralias = False
        if rp:
            side.update({k_: v_ for k_, v_ in rp.items() if k_ != "alias_last"})
            ralias = bool(rp.get("alias") or rp.get("alias_last"))
        rk = ["col", "right", "k"] if ralias else src("R", "k")
        rw_name = "v" if rp and rp.get("hist") and rp["hist"][0][0] == "rename" else "w"
        hidden_w = bool(rp and rp.get("hist") and rp["hist"][0][0] == "select")
        rw = ["col", "right", rw_name] if ralias else src("R", "w")
        ons = [
            [["eq", lk, rk]],
            [["eq", lk, rk], ["eq", lv, rw]],
            ["k"],
            [["lt", lk, rk]],
            [["eq", ["add", lk, lit(1)], rk]],
            [["and", ["eq", lk, rk], ["gt", lv, lit(1)]]],
            [["eq", rk, lk]],  # right column first
            [["eq", rk, rw]],  # an equality over the right table only (a predicate, not a join key; refused by full joins)
            [["and", ["eq", lk, rk], ["eq", lv, lit(1)]]],  # a key and an equality with a constant
            [["eq", lk, rk], ["eq", lit(1), rw]],  # ... with the constant first
            [["eq", ["add", lk, rk], lit(2)]],  # an equality that mixes both tables in one argument
        ]
        for how in ("inner", "left", "full"):
            for on in ons:
                out.append(["join", side, how, on, {}])
        out.append(["join", side, "cross", [], {}])
        out.append(["join", side, "inner", [["eq", lk, rk]], {"suffix": "_s"}])
    return out


def probes(ex, hist, mstates):
    if hist[-1][0] != "join":
        return []
    refs = [src("L", "k"), src("L", "v"), src("R", "k"), src("R", "w")]
    if len(hist) > 2 and hist[1][0] in ("alias", "mutate"):
        refs += [["col", "at", 1, "k"], ["col", "at", 1, "v"]]
    return [["mutate", [["probe", r]]] for r in refs]


def rows_alphabet(tier):
    def alphabet(st, hist):
        kinds = [e[0] for e in hist[1:]]
        if not kinds:
            return LPREP + join_events(False, RPREP)
        if kinds[-1] == "join":
            return []
        rp = RPREP if tier == "thorough" else RPREP[:1]
        return join_events(kinds == ["alias"], rp)
    return alphabet


# ---------------------------------------------------------------------------------------
# (chains) two successive joins with a third table: the clauses of the first join (filter of
# either side, ON / WHERE placement) meet the second join

S_COLS = [["k", "int"], ["u", "int"]]
CHAIN_TRIPLES = [
    ([[1, 1], [2, 2], [3, 3]], [[1, 1], [2, 2], [4, 2]], [[1, 1], [3, 2], [5, 2], [None, 2]]),
    ([[1, 2], [1, 1]], [[1, 2]], [[1, 2], [2, 1]]),
    ([[2, 2]], [], [[2, 2]]),
]


def chain_worlds():
    # (a table named L_1: the name a SQL backend may choose as alias for a second occurrence of L)
    return [{"tables": {"L": {"cols": L_COLS, "rows": lr}, "R": {"cols": R_COLS, "rows": rr}, "S": {"cols": S_COLS, "rows": sr},
                        "L_1": {"cols": [["k", "int"], ["z", "int"]], "rows": [[1, 7], [2, 8], [9, 9]]}}}
            for lr, rr, sr in CHAIN_TRIPLES]


def chain_first():
    out = []
    for rp in (None, {"hist": [["filter", [["gt", src("R", "w"), lit(1)]]]]}, {"alias": True},
               {"hist": [["mutate", [["c", lit(5)]]]]}):
        side = {"src": "R"}
        if rp:
            side.update(rp)
        rk = ["col", "right", "k"] if rp and rp.get("alias") else src("R", "k")
        for how in ("inner", "left", "full"):
            out.append(["join", side, how, [["eq", src("L", "k"), rk]], {}])
        out.append(["join", side, "cross", [], {}])
    # a self-join (the second occurrence of L gets a generated alias in SQL)
    out.append(["join", {"src": "L", "alias": "X"}, "inner", [["eq", src("L", "k"), ["col", "right", "k"]]], {}])
    return out


def chain_second(first):
    out = []
    r_alive = not first[1].get("alias") and first[1].get("src") == "R"
    for sp in (None, {"hist": [["filter", [["gt", src("S", "u"), lit(1)]]]]}):
        side = {"src": "S"}
        if sp:
            side.update(sp)
        ons = [[["eq", src("L", "k"), src("S", "k")]]]
        if r_alive:
            ons.append([["eq", src("R", "k"), src("S", "k")]])
        for how in ("inner", "left", "full"):
            for on in ons:
                out.append(["join", side, how, on, {}])
    out.append(["join", {"src": "L_1"}, "inner", [["eq", src("L", "k"), src("L_1", "k")]], {}])
    return out


def chains_alphabet(st, hist):
    kinds = [e[0] for e in hist[1:]]
    joins = [e for e in hist[1:] if e[0] == "join"]
    if not kinds:
        return [LPREP[0]] + chain_first()
    if not joins:
        return chain_first()
    if len(joins) == 1:
        return chain_second(joins[0])
    return []


def chain_probes(ex, hist, mstates):
    if hist[-1][0] != "join":
        return []
    joins = [e for e in hist[1:] if e[0] == "join"]
    refs = [src("L", "k"), src("L", "v")]
    for j in joins:
        t = j[1].get("src")
        if not j[1].get("alias"):
            refs += [src(t, c) for c, _ in ex.world["tables"][t]["cols"]]
    return [["mutate", [["probe", r]]] for r in refs]


# ---------------------------------------------------------------------------------------
# (names)

L_SCHEMAS = [
    ["k", "a"],
    ["k", "a", "a_R"],
    ["k", "a", "a_R", "a_R_1"],
    ["k", "a", "a_R", "a_R_1", "b_R_2"],
    ["k", "w"],
    ["k", "b_R", "a_R_1", "a"],
]
R_SCHEMAS = [["k", "a"], ["k", "a", "b"], ["k", "w"], ["k", "a_R"], ["a", "b", "k"]]


def name_worlds():
    ws = []
    for ls, rs in itertools.product(L_SCHEMAS, R_SCHEMAS):
        ws.append({"tables": {
            "L": {"cols": [[c, "int"] for c in ls], "rows": [[1] * len(ls), [2] * len(ls)]},
            "R": {"cols": [[c, "int"] for c in rs], "rows": [[1] * len(rs), [3] * len(rs)]},
        }})
    return ws


def names_alphabet(st, hist):
    kinds = [e[0] for e in hist[1:]]
    lcols = [c for c in st.names()] if st is not None else []
    if not kinds:
        pre = []
        for cname in lcols:
            if cname != "k":
                pre.append(["select", [["col", "C", x] for x in lcols if x != cname]])  # hide one column
                pre.append(["mutate", [[cname, ["add", ["col", "C", cname], lit(1)]]]])  # hidden twin of a visible name
        return pre[:6] + names_join_events(st)
    if kinds[-1] == "join":
        return []
    return names_join_events(st)


def names_join_events(st):
    out = []
    lk = src("L", "k")
    for side in ({"src": "R"}, {"src": "R", "hist": [["select", [src("R", "k")]]]},
                 {"src": "R", "hist": [["rename", [["k", "kr"]]]]}, {"src": "R", "alias": "X"}):
        rk = ["col", "right", "kr" if side.get("hist") and side["hist"][0][0] == "rename" else "k"]
        for on, how in (([["eq", lk, rk]], "inner"), ([["lt", lk, rk]], "inner"), ([["eq", lk, rk]], "left")):
            for sfx in (None, "_s", "_R"):
                out.append(["join", side, how, on, {"suffix": sfx}])
        if not side.get("hist") or side["hist"][0][0] != "rename":
            out.append(["join", side, "inner", ["k"], {}])
    return out


def name_probes(ex, hist, mstates):
    if hist[-1][0] != "join":
        return []
    w = ex.world["tables"]
    refs = [src("L", c) for c, _ in w["L"]["cols"]]
    if not hist[-1][1].get("alias"):
        refs += [src("R", c) for c, _ in w["R"]["cols"]]
    return [["mutate", [["probe", r]]] for r in refs]


# ---------------------------------------------------------------------------------------

def make_explorer(world, part="rows", tier="quick"):
    if part == "rows":
        return X.Explorer(world, alphabet=rows_alphabet(tier), checks=[], depth=3, oracle="model", names="list",
                          probes=probes)
    if part == "chains":
        return X.Explorer(world, alphabet=chains_alphabet, checks=[], depth=3, oracle="model", names="list",
                          probes=chain_probes)
    return X.Explorer(world, alphabet=names_alphabet, checks=[], depth=3, oracle="model", names="list",
                      probes=name_probes)


def tasks(tier):
    out = []
    nw = len(row_worlds(tier))
    step = 4 if tier == "quick" else 2
    for i in range(0, nw, step):
        out.append({"part": "rows", "worlds": list(range(i, min(nw, i + step)))})
    for i in range(len(chain_worlds())):
        out.append({"part": "chains", "worlds": [i]})
    nn = len(name_worlds())
    for hs in HASHSEEDS if tier == "thorough" else HASHSEEDS[:2]:
        for i in range(0, nn, 3):
            out.append({"part": "names", "worlds": list(range(i, min(nn, i + 3))), "hashseed": hs})
    return out


def run_task(task, tier):
    from collections import Counter

    ws = row_worlds(tier) if task["part"] == "rows" else chain_worlds() if task["part"] == "chains" else name_worlds()
    total = {"stats": Counter(), "outcomes": Counter(), "levels": Counter(), "violations": [], "samples": []}
    for wi in task["worlds"]:
        res = base.run_history_task(lambda ww: make_explorer(ww, task["part"], tier), ws[wi], [["source", "L"]], None,
                                    params={"part": task["part"], "tier": tier, "hashseed": task.get("hashseed")})
        for k in ("stats", "outcomes", "levels"):
            for kk, vv in res[k].items():
                total[k][kk] += vv
        total["violations"].extend(res["violations"])
        if len(total["samples"]) < 2:
            total["samples"].extend(res["samples"][:1])
    if task["part"] == "names":
        total["stats"]["hash_seed_runs"] += 1
    return {k: (dict(v) if isinstance(v, Counter) else v) for k, v in total.items()}


def recheck(rec):
    p = rec.get("params") or {}
    return base.recheck_history(lambda ww: make_explorer(ww, p.get("part", "rows"), p.get("tier", "quick")), rec)


def describe(tier):
    return {
        "chains": {"worlds": len(chain_worlds()), "first_join": "R plain / filtered / aliased / with a constant column; inner, left, full, cross",
                   "second_join": "S plain / filtered; inner, left, full; on L.k == S.k or R.k == S.k", "prefix": "optional filter on L",
                   "probes": "every source column of L, R and S through its original reference"},
        "rows": {
            "left_preparations": [T.py_event(e) for e in LPREP],
            "right_preparations": ["-", "filter(R.w > 1)", "mutate(w=R.w+1)", "select(R.k)", "rename(w -> v)", "alias()"],
            "join_events_per_state": len(join_events(False, RPREP)),
            "how": ["inner", "left", "full", "cross"],
            "on": ["L.k == R.k", "[L.k == R.k, L.v == R.w]", "'k'", "L.k < R.k", "L.k + 1 == R.k", "(L.k == R.k) & (L.v > 1)", "R.k == L.k"],
            "combination": "every left preparation x every right preparation" if tier == "thorough" else "one side preparation at a time",
            "input_family": f"every pair of tables with 0..{MAXROWS[tier]} rows over k in {{null,1,2}}, v/w in {{1,2}} plus 6 adversarial pairs (duplicate keys, null keys, empty sides)",
            "n_worlds": len(row_worlds(tier)),
            "probes": "after every accepted join: mutate(probe=<ref>) for L.k, L.v, R.k, R.w (and refs of the aliased/overwritten left table)",
        },
        "names": {
            "left_schemas": L_SCHEMAS, "right_schemas": R_SCHEMAS,
            "events": "optional hide / overwrite of a left column, then join with right preparations {-, select(k), rename(k), alias('X')} x (on, how) {(==, inner), (<, inner), (==, left), ('k', inner)} x suffix {None,'_s','_R'}",
            "n_worlds": len(name_worlds()), "hash_seeds": HASHSEEDS if tier == "thorough" else HASHSEEDS[:2],
        },
        "depth": 3,
        "backends": ["polars", "sqlite"],
        "oracle": "reference model: exact multiset of row combinations incl. padding; left names unchanged, right names by the documented suffix rule (any integer accepted for the numeric suffix), pairwise distinct; every probed reference yields that column's data or the documented rejection",
        "regime": "tree",
        "assumptions": ["reference model", "engines trusted"],
    }
