"""C16 - alias / collect / transfer_col_references re-root a table without changing data.

Prefix histories (hidden columns, renames, overwrites, filters, grouping, order), then one
re-rooting event, then uses of old and new references: export, mutate(probe=<origin
reference>), mutate(probe=<own reference>), self-join of the result with its origin on
every visible column, summarize of a collected grouped table.  Oracle: the reference
model (data, names and order unchanged; identity rules of each re-rooting verb)."""

from __future__ import annotations

from .. import explore as X
from .. import refmodel as M
from .. import terms as T
from . import base
from .common import Cn, lit

PROPERTY = "C16"
DEPTH = {"quick": 2, "thorough": 3}

WORLDS = [
    {"tables": {"T": {"cols": [["k", "int"], ["g", "int"], ["x", "int"]], "rows": [[1, 1, 10], [2, 1, 20], [3, 2, 30], [4, None, None]]}}},
    {"tables": {"T": {"cols": [["k", "int"], ["g", "int"], ["x", "int"]], "rows": [[1, 2, 5], [2, 2, 5]]}}},
]


def src(n):
    return ["col", "src", "T", n]


PREFIX = [
    ["select", [src("k"), src("x")]],  # hides g
    ["rename", [["x", "xx"]]],
    ["mutate", [["x", ["add", src("x"), lit(1)]]]],  # overwrite: hidden twin
    ["filter", [["ge", src("k"), lit(2)]]],
    ["group_by", [src("g")]],
    ["group_by", [src("x"), src("k")]],  # two keys, not in column order
    ["arrange", [["desc", src("k")]]],
    ["mutate", [["y", ["mul", src("k"), lit(2)]]]],
    ["summarize", [["m", ["max", src("x")]]]],  # drops columns: their references must stay dead after re-rooting
    ["slice_head", 3, 0],  # (after arrange: a later filter needs a subquery at the re-rooting alias)
    # window columns: the re-rooted table must remember that they are not element-wise
    ["mutate", [["w", ["sum", src("x")]], ["sh", ["shift", src("x"), 1, None, {"arrange": [src("k")]}]]]],
]
REROOT = [
    ["alias"],
    ["alias", "N"],
    ["alias", None, True],
    ["collect"],
    ["collect", False],
    ["transfer"],
    ["transfer", "rot"],  # the materialised table itself has a rename in its history
    ["transfer", "hidden"],  # ... or hidden columns of its own
    ["transfer", "sliced"],  # ... or a slice_head
]


def is_reroot(ev):
    return ev[0] in ("alias", "collect", "transfer")


def alphabet(st, hist):
    kinds = [e[0] for e in hist[1:]]
    n_re = sum(1 for e in hist[1:] if is_reroot(e))
    if n_re == 0:
        return PREFIX + REROOT
    if n_re == 1 and is_reroot(hist[-1]):
        # repeated aliasing, and verbs after the re-rooting that use C-references
        return [["alias"], ["filter", [["ge", Cn("k"), lit(2)]]], ["summarize", [["n", ["count_star"]], ["m", ["max", Cn("k")]]]],
                ["mutate", [["z", ["add", Cn("k"), lit(100)]]]], ["ungroup"]]
    return []


def size(hist):
    """the depth bound counts the verbs before the re-rooting event; the re-rooting event
    and the single verb the alphabet allows after it are free"""
    n = 0
    for e in hist[1:]:
        if is_reroot(e):
            break
        n += 1
    return n


def probes(ex, hist, mstates):
    if not any(is_reroot(e) for e in hist[1:]):
        return []
    st = mstates[-1]
    out = []
    # origin references
    for n in ("k", "g", "x"):
        out.append(["mutate", [["probe", src(n)]]])
    # references taken from intermediate tables before the re-rooting
    i_re = next(i for i, e in enumerate(hist) if i > 0 and is_reroot(e))
    for i in range(1, i_re):
        prev = mstates[i]
        if isinstance(prev, M.Reject):
            continue
        for n in prev.names():
            out.append(["mutate", [["probe", ["col", "at", i, n]]]])
    # the new table's own references
    cur = len(hist) - 1
    for n in st.names():
        out.append(["mutate", [["probe", ["col", "at", cur, n]]]])
    # the re-rooted table joined with an alias of the very table OBJECT it was made from (both operands
    # share every verb node below the re-rooting, e.g. a Mutate), on the first visible column
    if is_reroot(hist[-1]) and i_re >= 2 and not st.group:
        pre = mstates[i_re - 1]
        if not isinstance(pre, M.Reject) and not pre.group and pre.names():
            n0 = pre.names()[0]
            if n0 in st.names():
                for how in ("inner", "left"):
                    out.append(["join", {"at": i_re - 1, "alias": True}, how, [["eq", ["col", "at", cur, n0], ["col", "right", n0]]], {"suffix": "_s"}])
    # self-join with the origin (the same prefix replayed on the source) on every visible column
    if (is_reroot(hist[-1]) or (is_reroot(hist[-2]) and hist[-1][0] == "filter")) and not st.group:
        prefix = [e for e in hist[1:i_re] if e[0] not in ("group_by",)]
        origin = {"src": "T", "hist": prefix}
        try:
            omodel = ex.model.side(origin)[-1]
        except (M.Disabled, M.Reject):
            omodel = None
        if omodel is not None:
            for n in st.names():
                if n in omodel.names():
                    out.append(["join", origin, "inner", [["eq", ["col", "at", cur, n], ["col", "right", n]]], {"suffix": "_o"}])
                    out.append(["join", origin, "left", [["eq", ["col", "at", cur, n], ["col", "right", n]]]])
    return out


def plain_explorer(world):
    return X.Explorer(world, alphabet=lambda st, hist: [], checks=[], depth=9, oracle="model", names="list")


def check_origin_left(step):
    """the re-rooted table as the RIGHT operand of a join with its own origin: T >> join(<history
    incl. alias()>, T.n == right.n) and then every origin reference T.k / T.g / T.x is probed on
    the joined table (columns the history dropped on the right must not capture them)"""
    ev = step.event
    if not is_reroot(ev) or isinstance(step.mres, M.Reject):
        return []
    new_origin = (ev[0] == "alias" and not (len(ev) > 2 and ev[2])) or (ev[0] == "collect" and len(ev) > 1 and not ev[1])
    if not new_origin or step.mres.group:
        return []
    vs = []
    side = {"src": "T", "hist": step.hist[1:]}
    common = [n for n in step.mres.names() if n in ("k", "g", "x")]
    for n in common[:2]:
        for how in ("inner", "left"):
            join = ["join", side, how, [["eq", src(n), ["col", "right", n]]], {"suffix": "_a"}]
            for c in ("k", "g", "x"):
                h = [["source", "T"], join, ["mutate", [["probe", src(c)]]]]
                step.explorer.stats["origin_left_join_histories"] += 1
                res, idx = X.check_history(plain_explorer, step.world, h)
                vs.extend(res or [])
                if res:
                    break
    return vs


def make_explorer(world, depth=2):
    return X.Explorer(world, alphabet=alphabet, checks=[check_origin_left], depth=depth, oracle="model", names="list", probes=probes, size=size)


N_FIRST = len(PREFIX) + len(REROOT)


def tasks(tier):
    out = []
    for wi in range(len(WORLDS)):
        out += [{"world": wi, "first": [i]} for i in range(N_FIRST)]
    return out


def run_task(task, tier):
    d = DEPTH[tier]
    return base.run_history_task(lambda ww: make_explorer(ww, d), WORLDS[task["world"]], [["source", "T"]], task["first"],
                                 params={"depth": d})


def recheck(rec):
    d = (rec.get("params") or {}).get("depth", 2)
    return base.recheck_history(lambda ww: make_explorer(ww, d), rec)


def describe(tier):
    return {
        "prefix_alphabet": [T.py_event(e) for e in PREFIX],
        "prefix_depth": DEPTH[tier],
        "rerooting_events": ["alias()", "alias('N')", "alias(keep_col_refs=True)", "collect()", "collect(keep_col_refs=False)",
                             "transfer_col_references(<materialised copy>, tbl)", "alias() >> alias()"],
        "uses": ["export (every state is compared with the model: names, order, rows)", "mutate(probe=T.k / T.g / T.x)",
                 "mutate(probe=<reference of every intermediate table before the re-rooting>)", "mutate(probe=<own reference of every visible column>)",
                 "inner and left self-join with the origin (same prefix on the source) on every visible column",
                 "filter / summarize / mutate / ungroup after the re-rooting (grouping survives collect())",
                 "the re-rooted table as RIGHT operand of a join with its origin (T >> join(<history incl. alias()>, T.n == right.n)), then probes of T.k / T.g / T.x"],
        "input_family": "2 tables (nulls, a null group; duplicate rows)",
        "backends": ["polars", "sqlite (collect is polars-only)"],
        "oracle": "reference model of identity: alias()/collect(keep_col_refs=False) issue new references (origin references raise ColumnNotFoundError, self-join accepted), alias(keep_col_refs=True)/collect()/transfer keep the origin's references mapped to the same data (self-join refused with ValueError), data/names/order unchanged",
        "regime": "tree",
        "assumptions": ["reference model", "engines trusted"],
    }
