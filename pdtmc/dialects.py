"""Stub DBAPI modules so that PostgreSQL and SQL Server engines can be *constructed* and
pipelines *compiled* offline (no driver, no server).  Nothing is ever executed on them."""

from __future__ import annotations

import sys
import types
import warnings

import sqlalchemy as sqa

import pydiverse.transform as pdt

from . import world as W


def _stub_psycopg2():
    if "psycopg2" in sys.modules and not getattr(sys.modules["psycopg2"], "_pdtmc_stub", False):
        return sys.modules["psycopg2"]
    m = types.ModuleType("psycopg2")
    m._pdtmc_stub = True
    m.paramstyle = "pyformat"
    m.apilevel = "2.0"
    m.threadsafety = 2
    m.__version__ = "2.9.9 (stub)"

    class Error(Exception):
        pass

    m.Error = Error
    m.OperationalError = m.InterfaceError = m.DatabaseError = m.ProgrammingError = m.IntegrityError = Error
    m.Binary = bytes
    ext = types.ModuleType("psycopg2.extensions")
    ext.TRANSACTION_STATUS_IDLE = 0
    ext.ISOLATION_LEVEL_AUTOCOMMIT = 0
    ext.ISOLATION_LEVEL_READ_COMMITTED = 1
    ext.ISOLATION_LEVEL_REPEATABLE_READ = 2
    ext.ISOLATION_LEVEL_SERIALIZABLE = 3
    ext.ISOLATION_LEVEL_READ_UNCOMMITTED = 4
    ext.new_type = lambda *a, **k: None
    ext.new_array_type = lambda *a, **k: None
    ext.register_type = lambda *a, **k: None
    ext.register_adapter = lambda *a, **k: None
    ext.adapt = lambda x: x
    extras = types.ModuleType("psycopg2.extras")
    extras.register_uuid = lambda *a, **k: None
    extras.register_default_json = lambda *a, **k: None
    extras.register_default_jsonb = lambda *a, **k: None
    extras.HstoreAdapter = type("HstoreAdapter", (), {"get_oids": staticmethod(lambda c: None)})
    extras.execute_values = lambda *a, **k: None
    extras.execute_batch = lambda *a, **k: None
    m.extensions, m.extras = ext, extras
    sys.modules["psycopg2"] = m
    sys.modules["psycopg2.extensions"] = ext
    sys.modules["psycopg2.extras"] = extras
    return m


def _stub_pyodbc():
    if "pyodbc" in sys.modules and not getattr(sys.modules["pyodbc"], "_pdtmc_stub", False):
        return sys.modules["pyodbc"]
    m = types.ModuleType("pyodbc")
    m._pdtmc_stub = True
    m.paramstyle = "qmark"
    m.apilevel = "2.0"
    m.threadsafety = 1
    m.version = "5.0.0"
    m.SQL_DRIVER_NAME = 6
    m.SQL_WVARCHAR = -9
    m.SQL_DECIMAL = 3
    m.SQL_VARCHAR = 12

    class Error(Exception):
        pass

    m.Error = m.OperationalError = m.InterfaceError = m.DatabaseError = m.ProgrammingError = Error

    class Cursor:
        def nextset(self):
            return None

    m.Cursor = Cursor
    m.Binary = bytes
    sys.modules["pyodbc"] = m
    return m


_ENGINES = {}


def engine(dialect: str):
    if dialect in _ENGINES:
        return _ENGINES[dialect]
    with warnings.catch_warnings():
        warnings.simplefilter("ignore")
        if dialect == "postgres":
            e = sqa.create_engine("postgresql+psycopg2://u:p@localhost/db", module=_stub_psycopg2())
        elif dialect == "mssql":
            e = sqa.create_engine("mssql+pyodbc://u:p@localhost/db?driver=x", module=_stub_pyodbc())
            e.dialect.server_version_info = (15, 0)
            e.dialect._supports_offset_fetch = True
        else:
            raise ValueError(dialect)
    _ENGINES[dialect] = e
    return e


def build(world, dialect: str) -> W.Built:
    """tables of ``world`` bound to a stub engine of ``dialect`` (compile only)"""
    b = W.Built(dialect)
    b.engine = engine(dialect)
    md = sqa.MetaData()
    with warnings.catch_warnings():
        warnings.simplefilter("ignore")
        for name, tspec in world["tables"].items():
            t = sqa.Table(name, md, *(sqa.Column(cn, W.TYPES[ty][1]) for cn, ty in tspec["cols"]))
            b.sqa_tables[name] = t
            b.tables[name] = pdt.Table(t, pdt.SqlAlchemy(b.engine), name=name)
    b.engine = None  # never disposed / never connected
    return b


def top_level_problem(sql: str, dialect: str):
    """-> None if ``sql`` is one SELECT statement, else a short description.
    String literals ('..' with '' escapes) and quoted identifiers ("..", [..]) are skipped."""
    i, n = 0, len(sql)
    depth = 0
    out = []
    while i < n:
        c = sql[i]
        if c == "'":
            i += 1
            while i < n:
                if sql[i] == "'":
                    if i + 1 < n and sql[i + 1] == "'":
                        i += 2
                        continue
                    break
                i += 1
            else:
                return "unterminated string literal"
            i += 1
            continue
        if c == '"' or (c == "[" and dialect == "mssql"):
            close = '"' if c == '"' else "]"
            j = sql.find(close, i + 1)
            if j < 0:
                return "unterminated quoted identifier"
            i = j + 1
            continue
        if c == "-" and sql[i:i + 2] == "--":
            return "comment marker outside a literal"
        if c == "/" and sql[i:i + 2] == "/*":
            return "comment marker outside a literal"
        if c == "(":
            depth += 1
        elif c == ")":
            depth -= 1
            if depth < 0:
                return "unbalanced parentheses"
        elif c == ";":
            return "statement separator outside a literal"
        out.append(c)
        i += 1
    if depth != 0:
        return "unbalanced parentheses"
    head = "".join(out).lstrip().upper()
    if not head.startswith("SELECT"):
        return "does not start with SELECT"
    return None
