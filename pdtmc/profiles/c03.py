"""C03 - element-wise operators follow the documented null-aware semantics.

Programs ``mutate(y = op(args))`` for every operator / overload family of the statement,
in every operand shape (column o column, column o literal, literal o column; one level of
nesting in the thorough tier), evaluated on the full cross product of small operand
domains.  Rows leaving the documented domain (DESIGN section 4) are removed per program.
Oracle: reference value per row on both backends."""

from __future__ import annotations

import itertools
from collections import Counter

from .. import explore as X
from .. import refmodel as M
from .. import terms as T
from . import base

PROPERTY = "C03"

DOM = {
    "int": [None, -7, -2, -1, 0, 1, 2, 7],
    "float": [None, -2.5, -0.75, 0.0, 0.25, 1.5],
    "bool": [None, True, False],
    "str": [None, "", "a", "b", "ab"],
    "date": [None, "d:1999-12-31", "d:2020-01-02"],
}
NAMES = ["a", "b", "c"]


def A(i):
    return ["col", "src", "T", NAMES[i]]


def L(v):
    return ["lit", v]


# ---------------------------------------------------------------------------------------
# catalogue: (label, arg types, builder(args) -> term).  ``args`` are terms.

def _bin(op):
    return lambda a: [op, a[0], a[1]]


def catalogue():
    cat = []
    num_pairs = [("int", "int"), ("float", "float"), ("int", "float"), ("float", "int")]
    for op in ("add", "sub", "mul"):
        for tp in num_pairs:
            cat.append((op, tp, _bin(op)))
    cat.append(("add", ("str", "str"), _bin("add")))
    cat.append(("add", ("bool", "bool"), _bin("add")))
    for tp in (("int", "int"), ("float", "float"), ("int", "float")):
        cat.append(("truediv", tp, _bin("truediv")))
    cat.append(("floordiv", ("int", "int"), _bin("floordiv")))
    cat.append(("mod", ("int", "int"), _bin("mod")))
    cat.append(("pow", ("int", "int"), _bin("pow")))
    for op in ("neg", "pos", "abs"):
        for t in ("int", "float"):
            cat.append((op, (t,), lambda a, op=op: [op, a[0]]))
    for op in ("eq", "ne", "lt", "le", "gt", "ge"):
        for tp in (("int", "int"), ("float", "float"), ("str", "str"), ("bool", "bool"), ("date", "date"), ("int", "float")):
            cat.append((op, tp, _bin(op)))
    for op in ("and", "or", "xor"):
        cat.append((op, ("bool", "bool"), _bin(op)))
    cat.append(("invert", ("bool",), lambda a: ["invert", a[0]]))
    cat.append(("is_nan", ("float",), lambda a: ["is_nan", a[0]]))
    cat.append(("is_not_nan", ("float",), lambda a: ["is_not_nan", a[0]]))
    cat.append(("invert_and", ("bool", "bool"), lambda a: ["invert", ["and", a[0], a[1]]]))
    cat.append(("invert_or", ("bool", "bool"), lambda a: ["invert", ["or", a[0], a[1]]]))
    for t in DOM:
        cat.append(("is_null", (t,), lambda a: ["is_null", a[0]]))
        cat.append(("is_not_null", (t,), lambda a: ["is_not_null", a[0]]))
        cat.append(("fill_null", (t, t), lambda a: ["fill_null", a[0], a[1]]))
        cat.append(("coalesce", (t, t), lambda a: ["coalesce", a[0], a[1]]))
    cat.append(("coalesce", ("int", "int", "int"), lambda a: ["coalesce", *a]))
    for t in ("int", "str", "float", "bool", "date"):
        cat.append(("is_in1", (t, t), lambda a: ["is_in", a[0], a[1]]))
    cat.append(("is_in2", ("int", "int", "int"), lambda a: ["is_in", *a]))
    cat.append(("is_in2", ("str", "str", "str"), lambda a: ["is_in", *a]))
    for t in ("int", "float", "str", "bool", "date"):
        cat.append(("hmax", (t, t), lambda a: ["hmax", *a]))
        cat.append(("hmin", (t, t), lambda a: ["hmin", *a]))
    cat.append(("hmax", ("int", "int", "int"), lambda a: ["hmax", *a]))
    cat.append(("hmin", ("int", "int", "int"), lambda a: ["hmin", *a]))
    cat.append(("hsum", ("int", "int"), lambda a: ["hsum", *a]))
    cat.append(("hsum", ("int", "int", "int"), lambda a: ["hsum", *a]))
    cat.append(("hsum", ("float", "float"), lambda a: ["hsum", *a]))
    cat.append(("hsum", ("str", "str"), lambda a: ["hsum", *a]))
    for op in ("hany", "hall"):
        cat.append((op, ("bool", "bool"), lambda a, op=op: [op, *a]))
        cat.append((op, ("bool", "bool", "bool"), lambda a, op=op: [op, *a]))
    for t in ("float",):
        cat.append(("floor", (t,), lambda a: ["floor", a[0]]))
        cat.append(("ceil", (t,), lambda a: ["ceil", a[0]]))
    for d in (-1, 0, 1):
        cat.append((f"round{d}", ("float",), lambda a, d=d: ["round", a[0], L(d)]))
        cat.append((f"round{d}", ("int",), lambda a, d=d: ["round", a[0], L(d)]))
    # case expressions
    cat.append(("case1", ("int", "int"), lambda a: ["case", [[["gt", a[0], L(0)], a[1]]], None]))
    cat.append(("case1d", ("int", "int"), lambda a: ["case", [[["gt", a[0], L(0)], a[1]]], L(-99)]))
    cat.append(("case1dn", ("int", "int"), lambda a: ["case", [[["gt", a[0], L(0)], a[1]]], L(None)]))
    cat.append(("case2", ("int", "int"), lambda a: ["case", [[["gt", a[0], L(0)], L(1)], [["lt", a[1], L(0)], L(2)]], None]))
    cat.append(("case2d", ("int", "int"), lambda a: ["case", [[["gt", a[0], L(0)], L(1)], [["ge", a[0], L(-1)], a[1]]], ["neg", a[0]]]))
    cat.append(("caseb", ("bool", "str"), lambda a: ["case", [[a[0], a[1]]], L("else")]))
    cat.append(("casebb", ("bool", "bool"), lambda a: ["case", [[a[0], L("A")], [a[1], L("B")]], None]))
    cat.append(("casemix", ("bool", "int"), lambda a: ["case", [[a[0], a[1]]], L(0.5)]))
    # map
    cat.append(("map", ("int",), lambda a: ["map", a[0], [[L(1), L(10)], [L(2), L(20)]], None]))
    cat.append(("mapd", ("int",), lambda a: ["map", a[0], [[L(1), L(10)], [L(-7), L(70)]], L(0)]))
    cat.append(("fillround", ("int",), lambda a: ["round", ["fill_null", a[0], L(0.26)], L(1)]))
    cat.append(("coalround", ("int", "float"), lambda a: ["round", ["coalesce", a[0], a[1], L(2.74)], L(1)]))
    # integers beyond 2**53 (not representable as floats)
    for big in (2**53 + 1, 2**53 + 3, -(2**53) - 5):
        cat.append((f"floordiv_big", ("int",), lambda a, big=big: ["floordiv", L(big), a[0]]))
        cat.append((f"mod_big", ("int",), lambda a, big=big: ["mod", L(big), a[0]]))
        cat.append((f"mul_div_big", ("int",), lambda a, big=big: ["floordiv", ["add", L(big), a[0]], L(3)]))
    cat.append(("casemixstr", ("bool", "int"), lambda a: ["cast", ["case", [[a[0], L(1.5)]], a[1]], "str"]))
    cat.append(("casemixdiv", ("bool", "int"), lambda a: ["truediv", ["case", [[a[0], L(0.5)]], a[1]], L(2)]))
    cat.append(("mapdn", ("int",), lambda a: ["map", a[0], [[L(1), L(10)]], L(None)]))
    cat.append(("maptuple", ("int",), lambda a: ["map", a[0], [[["tuple", L(1), L(2)], L(5)], [["tuple", L(-1)], L(6)]], L(0)]))
    cat.append(("mapstr", ("str",), lambda a: ["map", a[0], [[L("a"), L("x")], [L(""), L("empty")]], None]))
    cat.append(("mapcol", ("int", "int"), lambda a: ["map", a[0], [[L(1), a[1]], [L(2), L(0)]], L(-1)]))
    return cat


def clip_programs():
    out = []
    # (integer column with one or two fractional bounds: the result is a float, the bound is not truncated)
    for t, bounds in (("int", [(-1, 1), (0, 0), (-7, 2), (2, 7), (0, 1.5), (-0.5, 2), (-0.5, 0.5), (-8, -0.5)]),
                      ("float", [(-0.75, 0.25), (0.0, 1.5), (0, 1), (-1, 0.25)])):
        for lo, hi in bounds:
            out.append((f"clip[{lo},{hi}]", (t,), ["clip", A(0), L(lo), L(hi)]))
    return out


def programs(tier):
    """-> list of (label, column types tuple, expression term)"""
    out = []
    seen = set()

    def add(label, coltypes, term):
        # a bare null literal is not a boolean condition (pdt.when rejects it by design)
        if term[0] == "case" and any(c == ["lit", None] for c, _ in term[1]):
            return
        # a unary numeric operator applied to an untyped null literal has no unique overload
        if any(s[0] in ("neg", "pos", "abs") and s[1] == ["lit", None] for s in M.subterms(term)):
            return
        key = (coltypes, str(term))
        if key not in seen:
            seen.add(key)
            out.append((label, coltypes, term))

    for label, types, build in catalogue():
        n = len(types)
        # all-columns shape
        add(f"{label}:cols", tuple(types), build([A(i) for i in range(n)]))
        if n == 2:
            # column o literal and literal o column, for every literal of the domain
            for v in DOM[types[1]]:
                add(f"{label}:col-lit", (types[0],), build([A(0), L(v)]))
            for v in DOM[types[0]]:
                if label in ("fill_null", "coalesce") and v is None:
                    continue  # an untyped null as first argument of a generic function
                add(f"{label}:lit-col", (types[1],), build([L(v), A(0)]))
        if n == 3 and label.startswith("is_in"):
            for v, w in itertools.product(DOM[types[1]], repeat=2):
                add(f"{label}:col-lit-lit", (types[0],), build([A(0), L(v), L(w)]))
    for label, types, term in clip_programs():
        add(label, types, term)
    if tier == "thorough":
        for p in nested_programs():
            add(*p)
    return out


def nested_programs():
    """one level of nesting: every type-correct pair op1(op2(a, b), c) from a reduced menu"""
    inner = {
        "int": [("add", ("int", "int")), ("sub", ("int", "int")), ("mul", ("int", "int")), ("floordiv", ("int", "int")),
                ("mod", ("int", "int")), ("hmax", ("int", "int")), ("coalesce", ("int", "int")), ("fill_null", ("int", "int"))],
        "float": [("truediv", ("int", "int")), ("add", ("float", "float"))],
        "bool": [("eq", ("int", "int")), ("lt", ("int", "int")), ("and", ("bool", "bool")), ("or", ("bool", "bool")),
                 ("is_null", ("int",)), ("is_in", ("int", "int"))],
        "str": [("add", ("str", "str")), ("fill_null", ("str", "str"))],
    }
    outer = [
        ("add", "int", "int"), ("sub", "int", "int"), ("mul", "int", "int"), ("floordiv", "int", "int"), ("mod", "int", "int"),
        ("eq", "int", "int"), ("lt", "int", "int"), ("hmin", "int", "int"), ("fill_null", "int", "int"),
        ("and", "bool", "bool"), ("or", "bool", "bool"), ("xor", "bool", "bool"),
        ("add", "float", "float"), ("gt", "float", "float"), ("add", "str", "str"), ("eq", "str", "str"),
    ]
    out = []
    for oop, t1, t2 in outer:
        for iop, itypes in inner.get(t1, []):
            n = len(itypes)
            it = [iop, *[A(i) for i in range(n)]]
            out.append((f"nest:{oop}({iop},col)", (*itypes, t2), [oop, it, A(n)]))
            out.append((f"nest:{oop}(col,{iop})", (t2, *itypes), [oop, A(0), [iop, *[A(i + 1) for i in range(n)]]]))
    for iop, itypes in inner["bool"]:
        n = len(itypes)
        out.append((f"nest:invert({iop})", itypes, ["invert", [iop, *[A(i) for i in range(n)]]]))
        out.append((f"nest:case({iop})", (*itypes, "int"), ["case", [[[iop, *[A(i) for i in range(n)]], A(n)]], L(0)]))
    for iop, itypes in inner["int"]:
        n = len(itypes)
        out.append((f"nest:neg({iop})", itypes, ["neg", [iop, *[A(i) for i in range(n)]]]))
        out.append((f"nest:abs({iop})", itypes, ["abs", [iop, *[A(i) for i in range(n)]]]))
    return out


# ---------------------------------------------------------------------------------------

def cross_rows(coltypes):
    rows = []
    for i, vals in enumerate(itertools.product(*(DOM[t] for t in coltypes))):
        rows.append([i + 1, *vals])
    return rows


def make_world(coltypes, rows):
    return {"tables": {"T": {"cols": [["k", "int"]] + [[NAMES[i], t] for i, t in enumerate(coltypes)], "rows": rows}}}


def allowed_rows(coltypes, term, rows):
    """remove the rows on which the program leaves the documented domain"""
    keep = []
    for r in rows:
        w = make_world(coltypes, [r])
        m = M.Model(w)
        try:
            m.step([m.source("T")], ["mutate", [["y", term]]])
        except M.Disabled:
            continue
        except M.Reject:
            pass
        keep.append(r)
    return keep


def shape(t):
    """operator skeleton of a term: literals abstracted to their type"""
    h = t[0]
    if h == "lit":
        v = t[1]
        return "null" if v is None else ("date" if isinstance(v, str) and v.startswith("d:") else type(v).__name__)
    if h == "col":
        return "col"
    return h + "(" + ",".join(shape(c) for c in M.children(t)) + ")"


def classify(v):
    ev = v["history"][-1]
    coltypes = ",".join(t for _, t in v["world"]["tables"]["T"]["cols"][1:])
    return "|".join([v["invariant"], v["backend"], f"{shape(ev[1][0][1])}[{coltypes}]", v["symptom"]])


def make_explorer(world, events):
    return X.Explorer(world, alphabet=lambda st, hist: events, checks=[], depth=1, oracle="both", names="list")


def tasks(tier):
    by_types: dict = {}
    for i, (label, coltypes, term) in enumerate(programs(tier)):
        by_types.setdefault(coltypes, []).append(i)
    out = []
    for coltypes, idxs in by_types.items():
        for j in range(0, len(idxs), 40):
            out.append({"coltypes": list(coltypes), "programs": idxs[j:j + 40]})
    return out


def run_task(task, tier):
    progs = programs(tier)
    coltypes = tuple(task["coltypes"])
    rows = cross_rows(coltypes)
    groups: dict = {}
    for i in task["programs"]:
        label, ct, term = progs[i]
        keep = allowed_rows(coltypes, term, rows)
        groups.setdefault(tuple(r[0] for r in keep), []).append((label, term, keep))
    total = {"stats": Counter(), "outcomes": Counter(), "levels": Counter(), "violations": [], "samples": []}
    for key, items in groups.items():
        keep = items[0][2]
        world = make_world(coltypes, keep)
        events = [["mutate", [["y", term]]] for _, term, _ in items]
        res = base.run_history_task(lambda w: make_explorer(w, events), world, [["source", "T"]], None,
                                    params={"coltypes": list(coltypes)}, classify=classify)
        for k in ("stats", "outcomes", "levels"):
            for kk, vv in res[k].items():
                total[k][kk] += vv
        total["stats"]["row_evaluations"] += len(keep) * len(events) * 2
        total["stats"]["rows_removed_by_domain"] += (len(rows) - len(keep)) * len(events)
        total["violations"].extend(res["violations"])
        if len(total["samples"]) < 2:
            total["samples"].extend(res["samples"][:1])
    for k in ("stats", "outcomes", "levels"):
        total[k] = dict(total[k])
    return total


def recheck(rec):
    ev = rec["history"][-1]
    return base.recheck_history(lambda w: make_explorer(w, [ev]), rec)


def describe(tier):
    progs = programs(tier)
    fam = Counter(p[0].split(":")[0] for p in progs)
    return {
        "programs": len(progs),
        "operator_families": dict(sorted(fam.items())),
        "shapes": "column o column, column o literal, literal o column" + ("; one level of nesting" if tier == "thorough" else ""),
        "domains": DOM,
        "input_family": "CROSS: the full cross product of the operand domains, one row per operand combination",
        "depth": 1,
        "oracle": "reference value per row (null propagation, Kleene logic, truncating // and %, null-skipping horizontal min/max/coalesce, first true case branch), on polars and SQLite, plus polars == SQLite",
        "regime": "exhaustive over programs x operand combinations",
        "sample_programs": [T.py_expr(p[2]) for p in progs[:: max(1, len(progs) // 12)]][:12],
        "assumptions": ["reference model transcribes the operator documentation", "rows outside the documented domain (division by zero, negative integer exponents, rounding ties) are removed per program"],
    }
