"""Driver: distributes the tasks of a profile over worker processes, adjudicates
violations against the known-findings file, re-executes new ones in fresh processes,
writes replay files and the evidence file.  (DESIGN.md 2.2-2.6, 7.3, 10)"""

from __future__ import annotations

import hashlib
import importlib
import json
import multiprocessing as mp
import os
import re
import subprocess
import sys
import time
import traceback
from collections import Counter

ROOT = os.path.dirname(os.path.dirname(os.path.abspath(__file__)))
PY = sys.executable
NPROC = int(os.environ.get("VERIF_NPROC", "16"))
MAX_VERIFIED = 6


def load_profile(pid: str):
    return importlib.import_module(f"pdtmc.profiles.{pid.lower()}")


def _worker(arg):
    pid, tier, task = arg
    try:
        prof = load_profile(pid)
        t0 = time.time()
        if isinstance(task, dict) and "hashseed" in task and os.environ.get("PDTMC_SUBTASK") != "1":
            res = run_subtask(pid, tier, task)
        else:
            res = prof.run_task(task, tier)
        res["wall"] = time.time() - t0
        return res
    except Exception:  # noqa: BLE001
        return {"harness_error": traceback.format_exc(), "task": task}


def run_subtask(pid, tier, task):
    """run one task in a fresh interpreter with its own PYTHONHASHSEED"""
    env = dict(os.environ)
    env["PYTHONHASHSEED"] = str(task["hashseed"])
    env["PDTMC_SUBTASK"] = "1"
    r = subprocess.run([PY, "-m", "pdtmc.subtask", pid, tier], input=json.dumps(task), cwd=ROOT, env=env,
                       stdout=subprocess.PIPE, stderr=subprocess.PIPE, text=True)
    if r.returncode != 0:
        raise RuntimeError(f"subtask failed ({r.returncode}): {r.stderr[-3000:]}")
    return json.loads(r.stdout[r.stdout.index("\x1e") + 1:])


def digest(obj) -> str:
    return hashlib.sha1(json.dumps(obj, sort_keys=True, default=str).encode()).hexdigest()[:16]


def load_known_findings():
    p = os.path.join(ROOT, "known_findings.json")
    if not os.path.exists(p):
        return {"findings": [], "fixed": []}
    with open(p) as f:
        return json.load(f)


def merge(total, res):
    for k in ("stats", "outcomes", "levels"):
        c = total.setdefault(k, Counter())
        for kk, vv in (res.get(k) or {}).items():
            c[kk] += vv
    total.setdefault("violations", []).extend(res.get("violations") or [])
    s = total.setdefault("samples", [])
    for x in res.get("samples") or []:
        if len(s) < 6:
            s.append(x)
    total["task_wall"] = total.get("task_wall", 0.0) + res.get("wall", 0.0)
    for run, d in (res.get("digests") or {}).items():
        total.setdefault("digests", {}).setdefault(run, {}).update(d)


def fresh_replay(path, times=2, hashseed=None):
    """re-execute a replay file in fresh processes; -> list of exit codes.  The hash seed
    differs between the runs unless the violation was recorded under a specific one."""
    codes = []
    for i in range(times):
        env = dict(os.environ)
        env["PYTHONHASHSEED"] = str(hashseed if hashseed is not None else i + 1)
        r = subprocess.run([PY, "-m", "pdtmc.replay", path], cwd=ROOT, env=env,
                           stdout=subprocess.PIPE, stderr=subprocess.STDOUT, text=True)
        codes.append((r.returncode, r.stdout[-2000:]))
    return codes


def run_check(pid: str, tier: str, seed: int) -> int:
    t0 = time.time()
    prof = load_profile(pid)
    tasks = prof.tasks(tier)
    if not tasks:
        print(f"harness error: no tasks for {pid}/{tier}")
        return 2
    rot = seed % len(tasks)
    tasks = tasks[rot:] + tasks[:rot]
    total: dict = {}
    harness_errors = []
    nproc = min(NPROC, len(tasks))
    ctx = mp.get_context("spawn")
    with ctx.Pool(nproc) as pool:
        for res in pool.imap_unordered(_worker, [(pid, tier, t) for t in tasks], chunksize=1):
            if "harness_error" in res:
                harness_errors.append(res)
                continue
            merge(total, res)
    if hasattr(prof, "finalize"):
        try:
            extra = prof.finalize(total, tier, seed)
            if extra:
                total.setdefault("violations", []).extend(extra)
        except Exception:  # noqa: BLE001
            harness_errors.append({"harness_error": traceback.format_exc(), "task": "finalize"})

    if harness_errors:
        for h in harness_errors[:3]:
            print("HARNESS ERROR in task", json.dumps(h.get("task"), default=str)[:300])
            print(h["harness_error"])
        print(f"harness error: {len(harness_errors)} task(s) failed; no verdict")
        return 2

    # ----- adjudicate violations --------------------------------------------------------
    kf = load_known_findings()
    known = {}
    known_rx = []
    for f in kf.get("findings", []):
        if f["property"] == pid or pid in f.get("also_in", []):
            for c in f.get("classes", []):
                known[c] = f
            for rx in f.get("class_regex", []):
                known_rx.append((re.compile(rx), f))
    by_class: dict = {}
    for v in total.get("violations", []):
        by_class.setdefault(v["class"], []).append(v)
    matched = {}
    new_classes = {}
    for c, vs in by_class.items():
        f = known.get(c) or next((f for rx, f in known_rx if rx.fullmatch(c)), None)
        if f is not None:
            matched.setdefault(f["id"], [f, 0])[1] += sum(x.get("count", 1) for x in vs)
        else:
            new_classes[c] = vs
    exit_code = 0
    replays = []
    unstable = []
    rdir = os.path.join(ROOT, "replays", pid)
    if not by_class and os.path.exists(os.path.join(rdir, "_all.json")):
        os.remove(os.path.join(rdir, "_all.json"))
    if by_class:
        os.makedirs(rdir, exist_ok=True)
        with open(os.path.join(rdir, "_all.json"), "w") as f:
            json.dump([{k: v.get(k) for k in ("class", "count", "py", "detail", "world", "history", "params")}
                       for vs in by_class.values() for v in vs], f, indent=1, default=str)
    for c, vs in sorted(new_classes.items(), key=lambda kv: (len(kv[1][0]["history"]), kv[0])):
        vs.sort(key=lambda v: (len(v["history"]), json.dumps(v["history"], default=str)))
        v = vs[0]
        rec = dict(v)
        rec["property"] = pid
        rec["profile"] = pid
        rec["tier"] = tier
        os.makedirs(rdir, exist_ok=True)
        path = os.path.join(rdir, digest([c, v["world"], v["history"], v.get("params")]) + ".json")
        with open(path, "w") as f:
            json.dump(rec, f, indent=1, default=str)
        n_verified = len(replays)
        if n_verified >= MAX_VERIFIED:
            # enough classes were re-executed in fresh processes; the remaining ones are
            # reported from the exploration's own (deterministic) execution
            print(f"VIOLATION property={pid} replay={path}")
            print(f"  class: {c}  (not re-executed: {MAX_VERIFIED} classes already confirmed)")
            replays.append(path)
            continue
        codes = fresh_replay(path, hashseed=(v.get("params") or {}).get("hashseed"))
        if all(code == 1 for code, _ in codes):
            print(f"VIOLATION property={pid} replay={path}")
            print(f"  class: {c}")
            print(f"  occurrences: {sum(x.get('count', 1) for x in vs)}")
            exit_code = 1
            replays.append(path)
        else:
            # not an alarm: the same history has to fail every time before it is reported
            unstable.append(c)
            print(f"note: class {c!r} did not reproduce identically in fresh processes (not reported)")
            for code, out in codes:
                print(f"  replay exit {code}: {out[-300:]}")
            print(f"  file: {path}")
    if unstable and exit_code == 0:
        print(f"harness error: {len(unstable)} violation class(es) did not reproduce identically and none did; no verdict")
        return 2
    stale = []
    for f in kf.get("findings", []):
        if f["property"] != pid and pid not in f.get("also_in", []):
            continue
        if f["id"] in matched:
            print(f"KNOWN-FINDING: property={pid} {f['what']} [{f['id']}; {matched[f['id']][1]} occurrence(s)]")
        elif tier in f.get("tiers", ["quick", "thorough"]):
            stale.append(f["id"])

    # ----- evidence --------------------------------------------------------------------
    stats = total.get("stats", Counter())
    desc = prof.describe(tier)
    cov = {
        "states": int(stats.get("states", 0)),
        "transitions": int(stats.get("transitions", 0)),
        "traces_validated_against_impl": int(stats.get("traces_validated", 0)),
        "samples": total.get("samples", [])[:6],
        "exhaustive": True,
        "evaluations": int(stats.get("states", 0)),
        "bounds": desc,
        "per_level": {str(k): int(v) for k, v in sorted(total.get("levels", {}).items(), key=lambda kv: int(kv[0]))},
        "counters": {k: int(v) for k, v in sorted(stats.items())},
        "distinct_outcomes": len(total.get("outcomes", {})),
        "outcome_kinds": _outcome_kinds(total.get("outcomes", {})),
        "violation_classes": {c: sum(x.get("count", 1) for x in vs) for c, vs in by_class.items()},
        "known_findings_matched": {k: v[1] for k, v in matched.items()},
        "stale_findings": stale,
        "new_violation_replays": replays,
        "unstable_classes_not_reported": unstable,
        "tasks": len(tasks),
        "workers": nproc,
        "regime": desc.get("regime", "tree"),
    }
    ev = {
        "property_id": pid,
        "tier": tier,
        "seed": seed,
        "level": "model_checking",
        "coverage": cov,
        "assumptions": desc.get("assumptions", []),
        "wall_s": round(time.time() - t0, 2),
        "violations": len(new_classes),
    }
    os.makedirs(os.path.join(ROOT, "evidence"), exist_ok=True)
    with open(os.path.join(ROOT, "evidence", f"{pid}.json"), "w") as f:
        json.dump(ev, f, indent=1, default=str)
    if cov["states"] < 1 or cov["transitions"] < 1:
        print("harness error: vacuous exploration (no states)")
        return 2
    print(f"{pid} {tier}: states={cov['states']} transitions={cov['transitions']} "
          f"traces={cov['traces_validated_against_impl']} outcomes={cov['distinct_outcomes']} "
          f"classes={len(by_class)} new={len(new_classes)} wall={ev['wall_s']}s")
    return exit_code


def _outcome_kinds(outcomes):
    c = Counter()
    for k, v in outcomes.items():
        parts = k.split(":")
        if len(parts) >= 2 and parts[1] == "frame":
            c[f"{parts[0]}:frame"] += 1
        else:
            c[k] += v
    return dict(c)


def main(argv=None):
    argv = list(sys.argv[1:] if argv is None else argv)
    if not argv:
        print("usage: check <property id> [--tier quick|thorough]")
        return 2
    pid = argv[0].upper()
    tier = os.environ.get("VERIF_TIER", "quick")
    if "--tier" in argv:
        tier = argv[argv.index("--tier") + 1]
    seed = int(os.environ.get("VERIF_SEED", "0") or 0)
    return run_check(pid, tier, seed)


if __name__ == "__main__":
    sys.exit(main())
